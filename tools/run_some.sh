#!/bin/bash
# usage: tools/run_some.sh <tier> <seed> <Cnn> [<Cnn> ...]   -- like run_all.sh for a subset
TIER=$1; SEED=$2; shift; shift
cd "$(dirname "$0")/.."
for p in "$@"; do
  s=$(date +%s)
  out=$(VERIF_SEED=$SEED ./check $p --tier $TIER 2>&1); rc=$?
  e=$(date +%s)
  nv=$(echo "$out" | grep -c "^VIOLATION")
  nk=$(echo "$out" | grep -c "^KNOWN-FINDING")
  nb=$(echo "$out" | grep -c "^BROKEN-CHECK")
  echo "$p tier=$TIER seed=$SEED rc=$rc violations=$nv known=$nk broken=$nb wall=$((e-s))s"
  if [ $rc -ne 0 ]; then echo "$out" | grep -v "^Set param\|^Restricted" | tail -12 | sed 's/^/    /' | cut -c1-400; fi
done
