#!/bin/bash
# Applies /verif/seeded/<name>/patch.diff to /repo, runs the given checks (quick tier unless TIER set), reverts.
# usage: try_seeded.sh <name> <Cnn> [<Cnn> ...]
set -u
NAME=$1; shift
P=/verif/seeded/$NAME/patch.diff
[ -z "$(git -C /repo status --porcelain --untracked-files=no)" ] || { echo "/repo dirty"; exit 2; }
git -C /repo apply $P || exit 2
trap 'git -C /repo checkout -q -- .' EXIT
for c in "$@"; do
  s=$(date +%s)
  /verif/check $c --tier ${TIER:-quick} > /tmp/seeded_${NAME}_$c.out 2>&1
  rc=$?
  echo "$NAME vs $c: rc=$rc viol=$(grep -c '^VIOLATION' /tmp/seeded_${NAME}_$c.out) known=$(grep -c '^KNOWN-FINDING' /tmp/seeded_${NAME}_$c.out) broken=$(grep -c 'BROKEN' /tmp/seeded_${NAME}_$c.out) wall=$(( $(date +%s)-s ))s"
  grep '^VIOLATION' /tmp/seeded_${NAME}_$c.out | head -3
done
# evidence files were rewritten against a mutated tree: restore the committed ones
git -C /verif checkout -q -- evidence
