#!/bin/bash
# Runs every registered check (quick by default) and prints one line per check.
# usage: tools/run_all.sh [quick|thorough] [seed]
TIER=${1:-quick}; SEED=${2:-0}
cd "$(dirname "$0")/.."
for p in C01 C02 C03 C04 C05 C06 C07 C08 C09 C10 C11 C12 C13 C14 C15 C16 C17 C18 C19 C20; do
  s=$(date +%s)
  out=$(VERIF_SEED=$SEED ./check $p --tier $TIER 2>&1); rc=$?
  e=$(date +%s)
  nv=$(echo "$out" | grep -c "^VIOLATION")
  nk=$(echo "$out" | grep -c "^KNOWN-FINDING")
  nb=$(echo "$out" | grep -c "^BROKEN-CHECK")
  echo "$p tier=$TIER seed=$SEED rc=$rc violations=$nv known=$nk broken=$nb wall=$((e-s))s"
  if [ $rc -ne 0 ]; then echo "$out" | grep -v "^Set param\|^Restricted" | tail -8 | sed 's/^/    /' | cut -c1-300; fi
done
