#!/usr/bin/env python3
"""Writes /verif/seeded/<id>/meta.json (one source of truth for the catch table)."""
import json
import os

ROOT = os.path.dirname(os.path.dirname(os.path.abspath(__file__)))
CONFIRM = ("tools/confirm_mutation.sh <scratch worktree> <id>: patch applied to a clean "
           "checkout of /repo HEAD 8b85d7b in a scratch worktree under /tmp; demo exits 0 "
           "without it and 1 with it; BASELINE pytest command: 209 passed, 4 skipped with it")
RUN = "tools/try_seeded.sh <id> <check>: git -C /repo apply patch.diff; ./check <check>; git -C /repo checkout -- ."
M = {
 "C01": dict(prop="C01", site="workload/resources.py Resources.allocate: `break` removed after a request is fully served",
             needs="a resource name split over several ids with a surplus on a non-last id, and an `any` request smaller than that surplus; capacity+1 concurrent tasks",
             caught_by=["C01 (S-res with the Cid21 worker)", "C04 (Resources BFS on fixture a2b1g1)"],
             first_run="missed by C01 and C04 (all multi-id fixtures had one unit per id)",
             strengthening="worker menu entry Cid21 = {CPU:a 2, CPU:b 1}; second Resources BFS fixture a2b1g1; exceptions raised by the code under test inside a BFS job are reported as violations instead of a harness failure"),
 "C02": dict(prop="C02", site="workload/tasks.py Task.is_ready_to_run: parent test `is_complete()` -> `state >= EVICTED` (CANCELLED counts as done)",
             needs="conditional DAG, plan-ahead policy that queued the join's placement, placement due while the taken branch is unfinished",
             caught_by=["C02 (S-cond/S-plan: start.before_parents + run.crash)"], first_run="caught", strengthening=None),
 "C03": dict(prop="C03", site="simulator.py __handle_task_placement: WORKER_NOT_READY retry caches the consumed event instead of the re-queued one",
             needs="a placement that fires while the chosen worker is full, then a re-placement of the still SCHEDULED task by a retracting policy before it gets in",
             caught_by=["C03 (S-adv: start.before_decided, start.wrong_pool)", "C05 via S-adv (run.crash ValueError list.remove)"],
             first_run="missed (no bundled policy produced the sequence on the small worlds)",
             strengthening="S-adv: the scheduler becomes a tape-driven part of the environment (vf/adv.py); every legal decision sequence within a deviation bound"),
 "C04": dict(prop="C04", site="workers/workers.py Worker.__copy__: shares the set of resident batch members",
             needs="BatchStrategy placement, copy of the Worker/Pool while the batch is resident, member remove/place on one side, then use of the other",
             caught_by=["C04 (Worker BFS: copy.not_independent / ledger rules)"], first_run="caught", strengthening=None),
 "C05": dict(prop="C05", site="simulator.py __handle_task_placement: TASK_NOT_READY retry loses the 1us floor",
             needs="zero-length parent, child placed in the same invocation, child's name sorting before the parent's",
             caught_by=["C05 (S-zero: run.watchdog)"], first_run="caught", strengthening=None),
 "C06": dict(prop="C06", site="workload/tasks.py TaskGraph.cancel: terminal-join guard looks at the parents of the cancelled task instead of the join's",
             needs="terminal join whose parents all lie below one cancellation of a non-source task (or a source cancelled next to a live parent)",
             caught_by=["C06 (S-cond with enforcement/drop: dead.not_cancelled / cancel.too_much)"], first_run="caught", strengthening=None),
 "C07": dict(prop="C07", site="workload/jobs.py JobGraph._generate_task_graph: `break` -> `continue` at the join while zeroing the untaken branch",
             needs="--resolve_conditionals_at_submission, two conditionals in sequence, the later one *listed first* in the workload file",
             caught_by=["C07 (S-cond 'seq listed=rev': branch.none_released / cancel.too_much)"],
             first_run="missed (templates were always listed parents-first)",
             strengthening="every conditional template is also generated with its node list reversed"),
 "C08": dict(prop="C08", site="simulator.py __handle_task_finished: missed-graph-deadline counter compares the finishing task's deadline instead of the graph's",
             needs="tasks of one graph with different deadlines (only --decompose_deadlines gives that through the stock loaders); last sink late for its own deadline but not the graph's",
             caught_by=["C08 (S-decomp: end.missed_task_graph_deadlines, reader.rejects_trace)"],
             first_run="missed (all worlds had one deadline per graph)", strengthening="S-decomp slice: S-dag with --decompose_deadlines"),
 "C09": dict(prop="C09", site="workload/jobs.py ReleasePolicy.__init__: `default_rng(seed) if rng_seed else default_rng()` (seed 0 unseeded)",
             needs="--random_seed=0 and a poisson/gamma release policy with >= 2 invocations",
             caught_by=["C09 (grid column seed=0: process.trace_differs)"],
             first_run="missed (grid seeds were 1..3), then BROKEN-CHECK (the two-replay gate compared the differing rows)",
             strengthening="seed 0 is always in the grid; violations carry an `ident` (here the grid point) that has to reproduce, instead of the message"),
 "C10": dict(prop="C10", site="schedulers/tetrisched_gurobi_scheduler.py _add_resource_constraints: last time slot has variables but no capacity row",
             needs="no deadline enforcement... or any instance where the last slot is usable; plan_ahead a multiple of the discretisation; earlier slots full",
             caught_by=["C10 (E4: capacity.* on enumerated feasible points)"], first_run="caught", strengthening=None),
 "C11": dict(prop="C11", site="schedulers/ilp_scheduler.py _add_task_dependency_constraints: rows against a parent whose placement entry is the constant 1 (RUNNING) are skipped",
             needs="parent RUNNING with >= 2us left while a child is decided (release_taskgraphs / lookahead)",
             caught_by=["C11 (E4 progress running_long: precedence.before_running_parent_ends on every feasible point and on the returned plan)"],
             first_run="missed (the running predecessor had exactly 1us left, so 'now+1' was already after its expected finish)",
             strengthening="progress pattern running_long: first task just started with its slowest strategy"),
 "C12": dict(prop="C12", site="schedulers/ilp_scheduler.py _initialize_timing_constraints: deadline row skipped for SCHEDULED tasks",
             needs="a SCHEDULED task re-planned by a later invocation whose deadline-meeting slot is taken",
             caught_by=["C12 (E1 planner runs S-plan: finish.after_deadline)"], first_run="caught", strengthening=None),
 "C13": dict(prop="C13", site="schedulers/lsf_scheduler.py slack(): remaining_time -> slowest strategy runtime",
             needs="a partially executed (PREEMPTED) task competing with a fresh one whose slack lies between the two values",
             caught_by=["C13 (first task preempted after 1-2us: priority.inversion)"],
             first_run="missed (all tasks were fresh)", strengthening="task-set grammar gains 'first task preempted after running 1 or 2 us'"),
 "C14": dict(prop="C14", site="schedulers/ilp_scheduler.py TaskOptimizerVariables: cleared_worker = copy(worker) instead of deepcopy (keeps current allocations)",
             needs="non-preemptive ILP, a RUNNING task leaving too little free capacity now for a strategy that is optimal later",
             caught_by=["C14 (reference optimum: goodput.below_optimum not attributable to a listed finding)"], first_run="caught", strengthening=None),
 "C15": dict(prop="C15", site="schedulers/clockwork_scheduler.py Model.remove_task: placed request removed from a strategy queue only if at its head",
             needs="two batch sizes; a lone request that only the fast strategy serves in front of a full batch",
             caught_by=["C15 (S-cw: placed_twice / once-only rule)"], first_run="caught", strengthening=None),
 "C16": dict(prop="C16", site="simulator.py EventQueue.remove_event: hole filled with the last element + _siftup only",
             needs=">= 6 pending events, removal at depth >= 2 in another subtree than the last slot, last element earlier than the removed slot's parent",
             caught_by=["C16 (populated-queue exploration: queue.drain_order)"],
             first_run="missed at quick depth 6 (needs 7+ operations from the empty queue)",
             strengthening="populated queues: 7 pending events x all time vectors in {0..3}^7 x every single removal / re-timing (thorough: pairs) + full drain"),
 "C17": dict(prop="C17", site="workload/tasks.py TaskGraph.critical_path_runtime: path chosen by fastest runtimes, priced with slowest",
             needs="two branches whose order by fastest runtime differs from the order by slowest",
             caught_by=["C17 (critical_path vs brute force over all paths)"], first_run="caught", strengthening=None),
 "C18": dict(prop="C18", site="workload/tasks.py TaskGraph.get_schedulable_tasks: a child is re-queued only the first time an estimate is computed",
             needs="a join with parents at different depths and a tail (A->C, P->B->C, C->G); A complete, P running",
             caught_by=["C18 (E2 graph skewjoin from the state 'all sources running': offer.premature)"],
             first_run="missed (no 5-node skewed join; the state is 8-9 operations from the initial one)",
             strengthening="graph skewjoin; BFS also started from the non-initial state 'every source released, placed and running'"),
 "C19": dict(prop="C19", site="workload/jobs.py JobGraph.__get_completion_time: longest path weighted by the fastest strategy, summed with the slowest",
             needs="fork/diamond job graph, multi-strategy menus whose fastest and slowest runtimes rank the branches differently",
             caught_by=["C19 (description grammar vs reference interpreter: deadline rule)"], first_run="caught", strengthening=None),
 "C20": dict(prop="C20", site="schedulers/tetrisched/src/OptimizationPasses.cpp computeCliques: right-child leaves of a LessThan inserted into the wrong clique set",
             needs="capacity-constraint purging pass on; LessThan whose right child is a Min of two leaves that overlap on one partition",
             caught_by=["C20 (trees lt(leaf,min): capacity.exceeded, optimum.differs)"],
             first_run="missed (LessThan children were leaves or a Max)", strengthening="tree shapes LessThan(leaf, Min(leaf, leaf)) and LessThan(Min(leaf, leaf), leaf)"),
}
for k, m in M.items():
    d = os.path.join(ROOT, "seeded", k)
    demo = [f for f in os.listdir(d) if f.startswith("demo")]
    out = {"id": k, "breaks_property": m["prop"], "change": m["site"],
           "needs_to_manifest": m["needs"], "demonstration": sorted(demo),
           "confirmed_with": CONFIRM, "checks_run": RUN,
           "result_on_first_run": m["first_run"], "strengthening": m["strengthening"],
           "caught_by": m["caught_by"], "origin": "independent sub-agent given only the "
           "property text and a scratch worktree"}
    with open(os.path.join(d, "meta.json"), "w") as f:
        json.dump(out, f, indent=1)
        f.write("\n")
print("| change | breaks | where | needs | first run | caught by (after strengthening) |")
print("|---|---|---|---|---|---|")
for k, m in M.items():
    print(f"| seeded/{k} | {m['prop']} | {m['site']} | {m['needs']} | {m['first_run']} | "
          f"{'; '.join(m['caught_by'])} |")
