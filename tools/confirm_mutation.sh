#!/bin/bash
# Confirms a sub-agent mutation in its scratch worktree and stores it under /verif/seeded/<name>/.
# usage: confirm_mutation.sh <worktree> <name>
# Checks: patch applies to a clean checkout, demo fails with it, passes without, pinned suite passes with it.
set -u
WT=$1; NAME=$2
M=$WT/MUTATION
OUT=/verif/seeded/$NAME
DEMO=$(ls $M/demo.py $M/demo.sh 2>/dev/null | head -1)
[ -f "$M/patch.diff" ] && [ -n "$DEMO" ] || { echo "missing deliverables"; exit 2; }
cd $WT
git checkout -q -- .
git status --short | grep -v MUTATION
run_demo() { if [[ $DEMO == *.py ]]; then timeout 900 /venv/bin/python $DEMO >/tmp/demo_$NAME.$1.log 2>&1; else timeout 900 bash $DEMO >/tmp/demo_$NAME.$1.log 2>&1; fi; echo $?; }
rc_clean=$(run_demo clean)
git apply $M/patch.diff || { echo "patch does not apply"; exit 2; }
rc_mut=$(run_demo mut)
timeout 3000 /venv/bin/python -m pytest -q -p no:cacheprovider --timeout=900 -x >/tmp/pytest_$NAME.log 2>&1
rc_tests=$?
tail -1 /tmp/pytest_$NAME.log
git checkout -q -- .
echo "demo clean rc=$rc_clean  demo mutated rc=$rc_mut  tests rc=$rc_tests"
if [ "$rc_clean" = 0 ] && [ "$rc_mut" != 0 ] && [ "$rc_tests" = 0 ]; then
  mkdir -p $OUT
  # everything the demonstration needs (extra sources, shims), but no logs
  rsync -a --exclude '*.log' --exclude '__pycache__' --exclude '.*' --exclude 'build*' $M/ $OUT/
  echo "CONFIRMED -> $OUT (tests: $(tail -1 /tmp/pytest_$NAME.log))"
else
  echo "NOT CONFIRMED"; exit 1
fi
