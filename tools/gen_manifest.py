#!/usr/bin/env python3
"""Regenerates /verif/MANIFEST.json from the table below (single source of truth for
the registered checks) and validates it against the schema."""
import json
import os
import sys

ROOT = os.path.dirname(os.path.dirname(os.path.abspath(__file__)))

BASELINE_CMD = ("cd /repo && /venv/bin/python -m pytest -ra -q -p no:cacheprovider "
                "--timeout=900 --continue-on-collection-errors")

E1_NOTE = ("Trusted base: the harness (vf/), CPython, and that an in-process "
           "main.main() run equals a fresh `python main.py` (re-checked by a "
           "subprocess conformance set in every run). Bounded: closed worlds of <=4-5 "
           "tasks x <=2 invocations on <=2 workers/pools; bundled policies, plus (for "
           "the simulator-side properties) a tape-driven scheduler that enumerates "
           "every legal decision sequence within a deviation bound (vf/adv.py).")

CHECKS = {
    "C01": dict(engine="E1", technique="explicit-state exploration of the real simulator "
                "over exhaustively enumerated closed worlds x answer tapes, shadow "
                "residency invariant on every state",
                text="Every world of the S-dag/S-res/S-cond/S-plan slices (thorough: "
                     "+S-time/S-var/S-closed) is executed through the real main.main() "
                     "for every branch/fuzz answer; after every live worker operation, "
                     "clock advance and event the shadow residency (from descriptions "
                     "and observed calls) must stay within the described capacity and "
                     "each task on one worker.", ref="5/C01", note=E1_NOTE),
    "C02": dict(engine="E1", technique="explicit-state exploration of the real simulator "
                "(closed worlds x tapes), shadow task automaton checked at every start",
                text="At every Task.start of every run: released, release<=start, all "
                     "described predecessors (taken branch for joins) finished, at most "
                     "one start/finish.", ref="5/C02", note=E1_NOTE),
    "C03": dict(engine="E1", technique="explicit-state exploration of the real simulator "
                "incl. all runtime-fuzz answers; timing oracle on every start/finish/"
                "event",
                text="finish = start + described runtime (within variance), resources "
                     "held exactly that long, monotone clock, events handled in "
                     "(time, priority) order, start >= decided time and every deferral "
                     "justified by the shadow state.", ref="5/C03", note=E1_NOTE),
    "C05": dict(engine="E1", technique="explicit-state exploration of the real simulator "
                "with liveness watchdogs; terminal-state oracle",
                text="Every run of every world returns via SIMULATOR_END <= loop "
                     "timeout without exception/livelock; work-conserving policies "
                     "finish every task.", ref="5/C05", note=E1_NOTE),
    "C06": dict(engine="E2+E1", technique="explicit-state BFS over operation histories "
                "of real TaskGraphs with a reference automaton per task; explicit-state "
                "exploration of the real simulator with the same automaton on every "
                "transition + dead-set fixpoint at the end",
                text="Every observed transition is an edge of the reference automaton; "
                     "every task that can no longer receive its inputs ends CANCELLED "
                     "with a TASK_CANCEL row and never starts; TASK_GRAPH_FINISHED rows "
                     "= graphs whose sinks completed.", ref="5/C06", note=E1_NOTE),
    "C07": dict(engine="E1", technique="explicit-state exploration over every "
                "branch-choice sequence (answer tape) of conditional templates",
                text="At every conditional completion exactly one child with non-zero "
                     "described probability is released, exactly the untaken branches "
                     "(dead-set fixpoint, joins excluded) are cancelled, nothing dead "
                     "ever starts; resolved-at-submission branch is the one that runs.",
                ref="5/C07", note=E1_NOTE),
}

E23_NOTE = ("Trusted base: the harness (vf/), CPython; the reference models are a few "
            "lines of Python each (dict ledger / sorted list / path enumeration). "
            "Bounded by the stated depth / size; all on the real classes of /repo.")

CHECKS.update({
    "C04": dict(engine="E2", technique="explicit-state BFS over operation histories "
                "(pool, bare Worker, several work profiles, bare Resources) on "
                "the real Resources/Worker/WorkerPool objects with a reference ledger",
                text="All histories of place / place-in-batch / remove / load / evict / "
                     "step / copy / deepcopy (full alphabet depth 4 quick / 5 thorough; "
                     "batch alphabet 6 / 8) and of allocate / allocate_multiple / "
                     "deallocate / copy on bare Resources; after every operation all "
                     "public getters vs the reference, refusals change nothing, "
                     "draining restores totals, copies are equal and independent. E1 "
                     "runs add: idle cluster => full capacity.",
                ref="5/C04", note=E23_NOTE),
    "C16": dict(engine="E3+E2", technique="exhaustive enumeration of boundary value/unit "
                "pairs and triples; explicit-state BFS over event-queue op sequences",
                text="EventTime operators agree with integer microseconds on all "
                     "pairs/triples of boundary values x units; EventQueue.next/peek "
                     "always minimal in (time, priority[, task name]) after every "
                     "add/remove/in-place re-time sequence to depth 6 (8).",
                ref="5/C16", note=E23_NOTE),
    "C17": dict(engine="E3", technique="exhaustive enumeration of all labelled DAGs "
                "(<=5 nodes quick, <=6 thorough) and cyclic digraphs (<=4) vs "
                "brute-force definitions",
                text="topological_sort, get_longest_path (all weight vectors), "
                     "critical path / completion time, are_dependent, depth, sources, "
                     "sinks, breadth_first, depth_first on every labelled DAG.",
                ref="5/C17", note=E23_NOTE),
})

CHECKS.update({
    "C13": dict(engine="E3", technique="exhaustive enumeration of small scheduler inputs "
                "(task sets x priority ranks x strategy lists x occupied pools) through "
                "the real schedule(), independent residual-fit oracle",
                text="For every enumerated input and each of EDF/FIFO/LSF: an unplaced "
                     "task must not fit any pool once the placed tasks of higher or "
                     "equal priority are accounted.", ref="5/C13", note=E23_NOTE),
    "C18": dict(engine="E2+E1", technique="explicit-state BFS over reachable task-state "
                "combinations with 96 frontier queries per state; plus run-level "
                "exploration (E1) with offer rules on every scheduler invocation",
                text="Frontier rules (no starvation, nothing finished, scheduled/running "
                     "only with retract/preempt, monotone in lookahead and "
                     "release_taskgraphs under identical random answers, no premature "
                     "offer to non-planning policies, release-on-completion).",
                ref="5/C18", note=E23_NOTE + " " + E1_NOTE),
})

CHECKS.update({
    "C08": dict(engine="E1", technique="explicit-state exploration of the real simulator; "
                "independent row parser + the project's CSVReader on every trace, "
                "compared with the shadow automaton",
                text="Every row of every trace (release/scheduled/placement/finished/"
                     "cancel/missed/graph/scheduler/end rows) against the shadow; the "
                     "same rows must be accepted by data.csv_reader.CSVReader and its "
                     "reconstructed tasks/graphs must match the run.",
                ref="5/C08", note=E1_NOTE),
})

CHECKS.update({
    "C19": dict(engine="E3+E1", technique="exhaustive enumeration of a description "
                "grammar through the real loaders vs a reference interpreter; "
                "closed-loop in-flight bound by run exploration (E1)",
                text="Graphs, profiles, strategies, SLOs, workers/resources, release "
                     "times per policy, fresh isomorphic instances, deadline = release "
                     "+ L(1+f) for the low/high/middle fuzz answer, override flags, "
                     "replication, JSON and YAML; closed loop: in-flight <= concurrency "
                     "at every event, N in total.",
                ref="5/C19", note=E23_NOTE + " " + E1_NOTE),
})

CHECKS.update({
    "C09": dict(engine="E6", category="exploration",
                technique="enumerated configuration grid, each point run as fresh "
                          "processes under controlled PYTHONHASHSEED / clock answers; "
                          "trace equality",
                text="Exploration level: the configuration grid (random sources x "
                     "policies x seeds) is enumerated completely, the hash-seed / "
                     "wall-clock / machine dimension only at three fixed points; plus "
                     "in-process double runs over S-dag/S-cond.",
                ref="5/C09",
                note="Trusted base: harness; the OS process model. Determinism across "
                     "machines is argued from the absence of any other environment "
                     "input, not enumerated."),
})

E4_NOTE = ("Trusted base: harness; Gurobi / z3 as evaluators of *fully fixed* decision "
           "points (objective zeroed), arithmetic row evaluation for the CPLEX "
           "formulation; the scheduler's own read-back decodes every point; the plan "
           "returned by the unmodified schedule() must be located among the enumerated "
           "feasible points (binding). Bounded: <=3 (4) tasks, <=2 workers, horizon "
           "<= 9 slots.")

CHECKS.update({
    "C10": dict(engine="E4+E1", technique="enumeration of mixed-state scheduler inputs "
                "through the real schedule() of every policy + decision-space "
                "enumeration of the captured models + decision contract on every "
                "schedule() call of explored simulations",
                text="Returns normally; <=1 decision per task; only offered / own "
                     "scheduled, not started tasks; every offered task answered; "
                     "pool/worker/strategy valid; time >= now and release; joint "
                     "capacity feasibility at all planned instants (pool-level: some "
                     "worker assignment, brute force), also on every feasible model "
                     "point; live state untouched.", ref="5/C10",
                note=E4_NOTE + " " + E1_NOTE),
    "C11": dict(engine="E4", technique="decision-space enumeration of the captured ILP / "
                "TetriSched-Gurobi / z3 models (every point fixed and evaluated), "
                "precedence oracle on every decoded feasible point",
                text="Every feasible point: placed task => in-model predecessors "
                     "placed; start >= predecessor start + chosen / worst-case runtime; "
                     ">= expected finish of running / scheduled predecessors.",
                ref="5/C11", note=E4_NOTE),
    "C12": dict(engine="E4+E1", technique="decision-space enumeration of the captured ILP "
                "/ TetriSched models over deadline classes + direct admission checks + "
                "run exploration (E1)",
                text="Hopeless tasks cancelled (EDF, FIFO, TetriSched-CPLEX) or left "
                     "unplaced (ILP task-by-task, TetriSched-Gurobi), nothing else "
                     "cancelled; start + chosen runtime <= deadline on every feasible "
                     "point; planner runs with exact runtimes finish every task by its "
                     "deadline.", ref="5/C12", note=E4_NOTE + " " + E1_NOTE),
})

CHECKS.update({
    "C14": dict(engine="E4+reference", technique="exhaustive reference search of the "
                "planners' decision space (plain Python) on every instance of a small "
                "grammar, compared with the plan the real schedule() returns",
                text="ILP goodput goal: graphs satisfied by the returned plan = maximum "
                     "over all feasible plans; TetriSched (Gurobi, CPLEX): returned "
                     "plan is maximal (no offered task can be added at any slot / "
                     "worker / strategy). Violations are attributed (running-task "
                     "overcharge, pairwise overlap sum, sink-only reward) so that each "
                     "known finding matches only its own cause.",
                ref="5/C14", note=E4_NOTE),
})

CHECKS.update({
    "C15": dict(engine="E1", technique="explicit-state exploration of the real simulator "
                "over all Clockwork arrival histories (release x deadline-class vectors, "
                "models, loading states, goals), per-invocation batch oracle",
                text="Every batch: one model, size = batch size of the chosen strategy, "
                     "on a worker where the model is loaded (shadow of load/evict/step) "
                     "and that can hold it, now + runtime <= earliest deadline; each "
                     "request placed at most once; hopeless requests cancelled in that "
                     "invocation and never placed.", ref="5/C15", note=E1_NOTE),
})

CHECKS.update({
    "C20": dict(engine="E5", technique="exhaustive enumeration of all solutions of the "
                "integer model compiled by the real C++ back-end (driver built from "
                "/repo, sequential TBB shim, no solver) for every tree of a bounded "
                "grammar; each solution read back by the real populateResults()",
                text="Every solution: capacity per partition per time unit, each "
                     "satisfied leaf exactly its demand for its duration, nothing held "
                     "by unsatisfied ones, Min all / Max at most one / LessThan order, "
                     "reported utility = objective; best objective = brute-force "
                     "optimum of the expression with and without passes; coarser "
                     "discretisation only loses utility.", ref="5/C20",
                note="Trusted base: harness, g++; the ~150-line sequential TBB shim "
                     "(nothing is claimed about data races of the parallel leaf "
                     "parsing); the Python enumerator is cross-checked against Gurobi "
                     "on a sample of the dumped models in every run. Bounded: <=3 "
                     "leaves (incl. a shared one), 2 partitions, horizon 12."),
})

NOT_YET = {}


def main():
    checks = []
    for pid, c in sorted(CHECKS.items()):
        checks.append({
            "property_id": pid,
            "quick_cmd": f"./check {pid} --tier quick",
            "thorough_cmd": f"./check {pid} --tier thorough",
            "evidence_file": f"/verif/evidence/{pid}.json",
            "replay_cmd_template": f"./check {pid} --replay {{path}}",
            "engine": c["engine"],
            "level_claimed": {
                "category": c.get("category", "model_checking"),
                "text": c["text"],
                "design_ref": "DESIGN.md section " + c["ref"],
            },
            "level_note": c["note"],
            "technique": c["technique"],
        })
    props = [json.loads(l)["id"] for l in open(os.path.join(ROOT, "properties.jsonl"))]
    na = []
    for pid in props:
        if pid not in CHECKS:
            na.append({"property_id": pid,
                       "reason": NOT_YET.get(pid, "check not built yet in this "
                                             "session (planned, see DESIGN.md section 5)")})
    m = {
        "version": 1,
        "setup_cmd": "cd /verif && /venv/bin/python tools/setup.py",
        "hooks": {
            "guard": "ERDOS_SIM_VERIF",
            "enable": "none needed: all observation points are class-level wrappers "
                      "installed from /verif (vf/harness.py); no source change in /repo",
            "baseline_off_cmd": BASELINE_CMD,
            "source_commits": [],
            "add_only": True,
        },
        "engines": ENGINES,
        "checks": checks,
        "not_applicable": na,
        "notes": "Family: model checking (bounded exhaustive exploration of the real "
                 "code). fix: commits in /repo are listed in known_findings.json.",
    }
    path = os.path.join(ROOT, "MANIFEST.json")
    with open(path, "w") as f:
        json.dump(m, f, indent=1)
    try:
        import jsonschema

        schema = json.load(open("/root/.vp/MANIFEST.schema.json"))
        jsonschema.validate(m, schema)
        print("MANIFEST.json valid;", len(checks), "checks;", len(na), "not claimed")
    except ImportError:
        print("written (jsonschema not available for validation)")


ENGINES = [
    {"name": "E5", "path": "vf/strl.py", "serves_properties": ["C20"],
     "kind_free_text": "C++ STRL driver (cxx/) + exhaustive solution enumeration of the "
                       "dumped model + reference semantics"},
    {"name": "E4", "path": "vf/e4.py", "serves_properties": ["C10", "C11", "C12", "C14"],
     "kind_free_text": "decision-space enumeration of the optimisation model captured "
                       "inside the real schedule() call"},
    {"name": "E6", "path": "vf/checks/c09.py", "serves_properties": ["C09"],
     "kind_free_text": "fresh-process determinism harness (hash seed, clock skew)"},
    {"name": "E2", "path": "vf/checks/c04.py", "serves_properties": ["C04", "C16", "C18"],
     "kind_free_text": "explicit-state BFS over operation histories on real objects "
                       "(state = history, rebuilt on fresh objects), reference model"},
    {"name": "E3", "path": "vf/checks/c17.py", "serves_properties": ["C13", "C16", "C17", "C19"],
     "kind_free_text": "exhaustive input enumeration of pure functions vs brute force"},
    {"name": "E1", "path": "vf/e1.py", "serves_properties":
        ["C01", "C02", "C03", "C05", "C06", "C07", "C08", "C10", "C12", "C15", "C18", "C19"],
     "kind_free_text": "closed-world run explorer: real main.main() in-process, answer "
                       "tape for randomness, shadow monitors on every event"},
]

if __name__ == "__main__":
    main()
