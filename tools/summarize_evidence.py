#!/usr/bin/env python3
"""Prints a markdown table of what the evidence files say (for DESIGN.md)."""
import glob
import json
import os

ROOT = os.path.dirname(os.path.dirname(os.path.abspath(__file__)))
print("| id | tier | states | transitions | validated vs impl | exhaustive | wall s | known findings hit |")
print("|----|------|--------|-------------|-------------------|-----------|--------|--------------------|")
for f in sorted(glob.glob(os.path.join(ROOT, "evidence", "C*.json"))):
    e = json.load(open(f))
    c = e["coverage"]
    kf = c.get("known_findings_hit") or {}
    if "parts" in c:
        for p in c["parts"].values():
            kf.update(p.get("known_findings_hit") or {})
    print(f"| {e['property_id']} | {e['tier']} | {c.get('states')} | {c.get('transitions')} | "
          f"{c.get('traces_validated_against_impl')} | {c.get('exhaustive')} | {e['wall_s']} | "
          f"{', '.join(sorted(kf)) or '-'} |")
