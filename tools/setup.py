#!/venv/bin/python
"""Offline setup: nothing to install; verifies the interpreter, the repo import and
pre-builds the C++ driver cache when a compiler is present (best effort)."""
import os
import subprocess
import sys

ROOT = os.path.dirname(os.path.dirname(os.path.abspath(__file__)))
os.makedirs(os.path.join(ROOT, "evidence"), exist_ok=True)
os.makedirs(os.path.join(ROOT, "replays"), exist_ok=True)
os.makedirs(os.path.join(ROOT, "build"), exist_ok=True)
r = subprocess.run([sys.executable, "-c",
                    "import sys; sys.path.insert(0, %r); from vf import bootstrap as B; "
                    "print('bootstrap ok, fresh rng:', B.FRESH_RNG_OK)" % ROOT],
                   capture_output=True, text=True)
print(r.stdout.strip().splitlines()[-1] if r.stdout.strip() else r.stderr[-500:])
if r.returncode:
    sys.exit(r.returncode)
# pre-build the STRL driver (C20 rebuilds it itself whenever the sources change)
try:
    sys.path.insert(0, ROOT)
    from vf import strl

    print("strl driver:", strl.build_driver())
except Exception as e:  # noqa: B902
    print("strl driver could not be pre-built:", e)
sys.exit(0)
