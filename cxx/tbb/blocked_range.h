#ifndef VF_TBB_BLOCKED_RANGE_H
#define VF_TBB_BLOCKED_RANGE_H
#include <cstddef>
namespace tbb {
template <typename T>
class blocked_range {
  T b, e;

 public:
  blocked_range(T begin, T end, size_t = 1) : b(begin), e(end) {}
  T begin() const { return b; }
  T end() const { return e; }
  bool empty() const { return !(b < e); }
};
}  // namespace tbb
#endif
