// Sequential stand-in for tbb::parallel_for: the body is applied to the whole range.
#ifndef VF_TBB_PARALLEL_FOR_H
#define VF_TBB_PARALLEL_FOR_H
#include "tbb/blocked_range.h"
namespace tbb {
template <typename Range, typename Body>
void parallel_for(const Range& range, const Body& body) {
  body(range);
}
}  // namespace tbb
#endif
