// Sequential stand-in for tbb::concurrent_vector (verification harness only).
#ifndef VF_TBB_CONCURRENT_VECTOR_H
#define VF_TBB_CONCURRENT_VECTOR_H
#include <vector>
namespace tbb {
template <typename T>
class concurrent_vector : public std::vector<T> {
 public:
  using std::vector<T>::vector;
};
}  // namespace tbb
#endif
