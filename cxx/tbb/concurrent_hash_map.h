// Sequential stand-in for tbb::concurrent_hash_map (verification harness only).
// Same surface as used by schedulers/tetrisched: accessor / const_accessor, find,
// insert, erase, size, clear, iteration, range().  No concurrency: the harness runs
// the back-end single-threaded (see tbb/task_group.h, tbb/parallel_for.h).
#ifndef VF_TBB_CONCURRENT_HASH_MAP_H
#define VF_TBB_CONCURRENT_HASH_MAP_H
#include <cstddef>
#include <functional>
#include <type_traits>
#include <unordered_map>
#include <utility>

namespace tbb {
template <typename K>
struct tbb_hash_compare {
  static size_t hash(const K& k) { return std::hash<K>()(k); }
  static bool equal(const K& a, const K& b) { return a == b; }
};

template <typename K, typename V, typename HC = tbb_hash_compare<K>>
class concurrent_hash_map {
  struct Hash {
    size_t operator()(const K& k) const { return HC::hash(k); }
  };
  struct Eq {
    bool operator()(const K& a, const K& b) const { return HC::equal(a, b); }
  };
  using Map = std::unordered_map<K, V, Hash, Eq>;
  Map m;

 public:
  using key_type = K;
  using mapped_type = V;
  using value_type = typename Map::value_type;
  using iterator = typename Map::iterator;
  using const_iterator = typename Map::const_iterator;

  class const_accessor {
   protected:
    const value_type* p = nullptr;
    friend class concurrent_hash_map;

   public:
    bool empty() const { return p == nullptr; }
    const value_type& operator*() const { return *p; }
    const value_type* operator->() const { return p; }
    void release() { p = nullptr; }
  };
  class accessor {
    value_type* p = nullptr;
    friend class concurrent_hash_map;

   public:
    bool empty() const { return p == nullptr; }
    value_type& operator*() const { return *p; }
    value_type* operator->() const { return p; }
    void release() { p = nullptr; }
  };

  struct range_type {
    Map* m;
    iterator begin() const { return m->begin(); }
    iterator end() const { return m->end(); }
    bool empty() const { return m->empty(); }
  };
  struct const_range_type {
    const Map* m;
    const_iterator begin() const { return m->begin(); }
    const_iterator end() const { return m->end(); }
    bool empty() const { return m->empty(); }
  };

  concurrent_hash_map() = default;
  concurrent_hash_map(const concurrent_hash_map&) = default;
  concurrent_hash_map& operator=(const concurrent_hash_map&) = default;

  bool find(accessor& a, const K& k) {
    auto it = m.find(k);
    if (it == m.end()) {
      a.p = nullptr;
      return false;
    }
    a.p = &*it;
    return true;
  }
  bool find(const_accessor& a, const K& k) const {
    auto it = m.find(k);
    if (it == m.end()) {
      a.p = nullptr;
      return false;
    }
    a.p = &*it;
    return true;
  }
  bool insert(accessor& a, const K& k) {
    auto r = m.emplace(k, V());
    a.p = &*r.first;
    return r.second;
  }
  bool insert(const_accessor& a, const K& k) {
    auto r = m.emplace(k, V());
    a.p = &*r.first;
    return r.second;
  }
  bool insert(accessor& a, const value_type& v) {
    auto r = m.insert(v);
    a.p = &*r.first;
    return r.second;
  }
  template <typename P>
  bool insert(accessor& a, const P& v) {
    if constexpr (std::is_convertible_v<const P&, K>) {
      auto r = m.emplace(static_cast<K>(v), V());
      a.p = &*r.first;
      return r.second;
    } else {
      auto r = m.insert(value_type(v.first, v.second));
      a.p = &*r.first;
      return r.second;
    }
  }
  bool insert(const value_type& v) { return m.insert(v).second; }
  bool erase(const K& k) { return m.erase(k) > 0; }
  bool erase(accessor& a) {
    if (!a.p) return false;
    m.erase(a.p->first);
    a.p = nullptr;
    return true;
  }
  size_t count(const K& k) const { return m.count(k); }
  size_t size() const { return m.size(); }
  bool empty() const { return m.empty(); }
  void clear() { m.clear(); }
  iterator begin() { return m.begin(); }
  iterator end() { return m.end(); }
  const_iterator begin() const { return m.begin(); }
  const_iterator end() const { return m.end(); }
  range_type range() { return range_type{&m}; }
  const_range_type range() const { return const_range_type{&m}; }
};
}  // namespace tbb
#endif
