// Sequential stand-in for tbb::task_group: run() executes at once.
#ifndef VF_TBB_TASK_GROUP_H
#define VF_TBB_TASK_GROUP_H
namespace tbb {
class task_group {
 public:
  template <typename F>
  void run(const F& f) {
    f();
  }
  void wait() {}
};
}  // namespace tbb
#endif
