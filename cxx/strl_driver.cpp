// STRL driver for the verification harness (property C20).
//
// Built from /repo/schedulers/tetrisched/{src,include} with the sequential TBB shim in
// this directory and *no* solver library.  SolverModelT / VariableT / ConstraintT /
// ObjectiveFunctionT declare `tetrisched::GurobiSolver` a friend; the driver supplies
// that class itself (the real one is only compiled with _TETRISCHED_WITH_GUROBI_), so
// it may construct a SolverModel, read its rows and store solution values.
//
// Protocol (stdin, one command per line; stdout, one JSON document per command):
//   tree description lines ... `end`      -> builds the real Expression objects, runs
//        the requested real optimisation passes, calls the real parse(), prints the
//        model (variables, constraints incl. the `active` flag, objective)
//   `sol name=value name=value ...`       -> fresh tree + passes + parse, stores the
//        values into the model's variables by name, calls the real populateResults()
//        and prints every node's SolutionResult and the root's placements
//   `quit`
#include <cmath>
#include <iostream>
#include <map>
#include <sstream>
#include <string>
#include <vector>

#include "tetrisched/CapacityConstraint.hpp"
#include "tetrisched/Expression.hpp"
#include "tetrisched/OptimizationPasses.hpp"
#include "tetrisched/Partition.hpp"
#include "tetrisched/SolverModel.hpp"

namespace tetrisched {
class GurobiSolver {
 public:
  static SolverModelPtr makeModel() {
    return std::shared_ptr<SolverModel>(new SolverModel());
  }
  static void setValue(const VariablePtr& v, TETRISCHED_ILP_TYPE x) {
    v->solutionValue = x;
  }
  static std::string jsonEscape(const std::string& s) {
    std::string o;
    for (char c : s) {
      if (c == '"' || c == '\\') o.push_back('\\');
      o.push_back(c);
    }
    return o;
  }
  static void dumpModel(const SolverModelPtr& m, std::ostream& os) {
    os << "{\"variables\":[";
    bool first = true;
    for (const auto& [id, v] : m->modelVariables) {
      if (!first) os << ",";
      first = false;
      os << "{\"id\":" << id << ",\"name\":\"" << jsonEscape(v->variableName)
         << "\",\"type\":" << static_cast<int>(v->variableType) << ",\"lb\":";
      if (v->lowerBound.has_value()) os << v->lowerBound.value(); else os << "null";
      os << ",\"ub\":";
      if (v->upperBound.has_value()) os << v->upperBound.value(); else os << "null";
      os << "}";
    }
    os << "],\"constraints\":[";
    first = true;
    for (const auto& [id, c] : m->modelConstraints) {
      if (!first) os << ",";
      first = false;
      os << "{\"id\":" << id << ",\"name\":\"" << jsonEscape(c->constraintName)
         << "\",\"sense\":" << static_cast<int>(c->constraintType)
         << ",\"rhs\":" << c->rightHandSide
         << ",\"active\":" << (c->active ? "true" : "false")
         << ",\"lazy\":" << (c->attributes.count(LAZY_CONSTRAINT) ? "true" : "false")
         << ",\"terms\":[";
      bool f2 = true;
      for (const auto& [coef, var] : c->terms) {
        if (!f2) os << ",";
        f2 = false;
        os << "[" << coef << ",";
        if (var) os << var->variableId; else os << "null";
        os << "]";
      }
      os << "]}";
    }
    os << "],\"objective\":";
    if (m->objectiveFunction) {
      os << "{\"type\":" << static_cast<int>(m->objectiveFunction->objectiveType)
         << ",\"terms\":[";
      bool f2 = true;
      for (const auto& [coef, var] : m->objectiveFunction->terms) {
        if (!f2) os << ",";
        f2 = false;
        os << "[" << coef << ",";
        if (var) os << var->variableId; else os << "null";
        os << "]";
      }
      os << "]}";
    } else {
      os << "null";
    }
    os << "}";
  }
  static std::map<std::string, VariablePtr> byName(const SolverModelPtr& m) {
    std::map<std::string, VariablePtr> out;
    for (const auto& [id, v] : m->modelVariables) out[v->variableName] = v;
    return out;
  }
  static std::vector<VariablePtr> byRank(const SolverModelPtr& m) {
    std::map<uint32_t, VariablePtr> byId;
    for (const auto& [id, v] : m->modelVariables) byId[id] = v;
    std::vector<VariablePtr> out;
    for (auto& [id, v] : byId) out.push_back(v);
    return out;
  }
  static bool duplicateNames(const SolverModelPtr& m) {
    std::map<std::string, int> seen;
    for (const auto& [id, v] : m->modelVariables) {
      if (++seen[v->variableName] > 1) return true;
    }
    return false;
  }
};
}  // namespace tetrisched

using namespace tetrisched;

struct NodeSpec {
  std::string kind, name;
  std::vector<std::string> args;
};

struct TreeSpec {
  Time now = 0;
  Time granularity = 1;
  std::vector<std::tuple<uint32_t, std::string, size_t>> partitions;
  bool critical = false, purge = false, dynamic = false;
  std::map<int, NodeSpec> nodes;
  std::vector<std::pair<int, int>> edges;
  int root = -1;
};

static std::vector<std::string> split(const std::string& s, char d) {
  std::vector<std::string> out;
  std::stringstream ss(s);
  std::string item;
  while (std::getline(ss, item, d)) out.push_back(item);
  return out;
}

struct Built {
  std::map<int, ExpressionPtr> nodes;
  std::map<uint32_t, PartitionPtr> parts;
  Partitions all;
  ExpressionPtr root;
  SolverModelPtr model;
  CapacityConstraintMapPtr ccm;
  std::string error;
  int rootParseType = 0;
};

static Partitions subset(const Built& b, const std::string& csv) {
  Partitions p;
  for (auto& tok : split(csv, ',')) {
    if (tok.empty()) continue;
    p.addPartition(b.parts.at(static_cast<uint32_t>(std::stoul(tok))));
  }
  return p;
}

static Built build(const TreeSpec& t) {
  Built b;
  try {
    for (auto& [id, name, q] : t.partitions) {
      auto p = std::make_shared<Partition>(id, name, q);
      b.parts[id] = p;
      b.all.addPartition(p);
    }
    for (auto& [idx, n] : t.nodes) {
      ExpressionPtr e;
      const auto& a = n.args;
      if (n.kind == "choose") {
        e = std::make_shared<ChooseExpression>(
            n.name, subset(b, a[0]), static_cast<uint32_t>(std::stoul(a[1])),
            static_cast<Time>(std::stoul(a[2])), static_cast<Time>(std::stoul(a[3])),
            std::stod(a[4]));
      } else if (n.kind == "windowed") {
        e = std::make_shared<WindowedChooseExpression>(
            n.name, subset(b, a[0]), static_cast<uint32_t>(std::stoul(a[1])),
            static_cast<Time>(std::stoul(a[2])), static_cast<Time>(std::stoul(a[3])),
            static_cast<Time>(std::stoul(a[4])), static_cast<Time>(std::stoul(a[5])),
            std::stod(a[6]));
      } else if (n.kind == "malleable") {
        e = std::make_shared<MalleableChooseExpression>(
            n.name, subset(b, a[0]), static_cast<uint32_t>(std::stoul(a[1])),
            static_cast<Time>(std::stoul(a[2])), static_cast<Time>(std::stoul(a[3])),
            static_cast<Time>(std::stoul(a[4])), std::stod(a[5]));
      } else if (n.kind == "allocation") {
        PriorPlacement pp;
        for (auto& tok : split(a[0], ',')) {
          auto kv = split(tok, ':');
          pp.push_back({b.parts.at(static_cast<uint32_t>(std::stoul(kv[0]))),
                        static_cast<uint32_t>(std::stoul(kv[1]))});
        }
        e = std::make_shared<AllocationExpression>(
            n.name, pp, static_cast<Time>(std::stoul(a[1])),
            static_cast<Time>(std::stoul(a[2])));
      } else if (n.kind == "objective") {
        e = std::make_shared<ObjectiveExpression>(n.name);
      } else if (n.kind == "min") {
        e = std::make_shared<MinExpression>(n.name);
      } else if (n.kind == "max") {
        e = std::make_shared<MaxExpression>(n.name);
      } else if (n.kind == "lessthan") {
        e = std::make_shared<LessThanExpression>(n.name);
      } else if (n.kind == "scale") {
        e = std::make_shared<ScaleExpression>(n.name, std::stod(a[0]));
      } else {
        b.error = "unknown node kind " + n.kind;
        return b;
      }
      b.nodes[idx] = e;
    }
    for (auto& [p, c] : t.edges) b.nodes.at(p)->addChild(b.nodes.at(c));
    b.root = b.nodes.at(t.root);
    b.model = GurobiSolver::makeModel();
    b.ccm = std::make_shared<CapacityConstraintMap>(t.granularity);
    auto cfg = std::make_shared<OptimizationPassConfig>();
    cfg->minDiscretization = 1;
    cfg->maxDiscretization = 3;
    OptimizationPassRunner runner(cfg, false);
    if (t.critical) runner.addOptimizationPass(CRITICAL_PATH_PASS);
    if (t.dynamic) runner.addOptimizationPass(DYNAMIC_DISCRETIZATION_PASS);
    if (t.purge) runner.addOptimizationPass(CAPACITY_CONSTRAINT_PURGE_PASS);
    runner.runPreTranslationPasses(t.now, b.root, b.ccm);
    auto pr = b.root->parse(b.model, b.all, b.ccm, t.now);
    b.rootParseType = static_cast<int>(pr->type);
    runner.runPostTranslationPasses(t.now, b.root, b.ccm);
  } catch (std::exception& e) {
    b.error = std::string("exception: ") + e.what();
  }
  return b;
}

static void dumpSolution(const TreeSpec& t, Built& b, std::ostream& os) {
  os << "{\"nodes\":{";
  bool first = true;
  for (auto& [idx, e] : b.nodes) {
    auto sol = e->getSolution();
    if (!first) os << ",";
    first = false;
    os << "\"" << idx << "\":";
    if (!sol.has_value()) {
      os << "null";
      continue;
    }
    auto s = sol.value();
    os << "{\"type\":" << static_cast<int>(s->type) << ",\"utility\":";
    if (s->utility.has_value()) os << s->utility.value(); else os << "null";
    os << ",\"start\":";
    if (s->startTime.has_value()) os << s->startTime.value(); else os << "null";
    os << ",\"end\":";
    if (s->endTime.has_value()) os << s->endTime.value(); else os << "null";
    os << "}";
  }
  os << "},\"placements\":{";
  auto rs = b.root->getSolution();
  first = true;
  if (rs.has_value()) {
    for (auto& [name, pl] : rs.value()->placements) {
      if (!first) os << ",";
      first = false;
      os << "\"" << GurobiSolver::jsonEscape(name) << "\":{\"placed\":"
         << (pl->isPlaced() ? "true" : "false") << ",\"start\":";
      if (pl->getStartTime().has_value()) os << pl->getStartTime().value(); else os << "null";
      os << ",\"end\":";
      if (pl->getEndTime().has_value()) os << pl->getEndTime().value(); else os << "null";
      os << ",\"alloc\":[";
      bool f2 = true;
      for (auto& [pid, set] : pl->getPartitionAllocations()) {
        for (auto& [time, q] : set) {
          if (!f2) os << ",";
          f2 = false;
          os << "[" << pid << "," << time << "," << q << "]";
        }
      }
      os << "]}";
    }
  }
  os << "}}";
  (void)t;
}

int main() {
  std::ios::sync_with_stdio(false);
  TreeSpec tree;
  std::string line;
  while (std::getline(std::cin, line)) {
    if (line.empty()) continue;
    auto tok = split(line, ' ');
    const std::string& cmd = tok[0];
    if (cmd == "quit") break;
    if (cmd == "reset") {
      tree = TreeSpec();
    } else if (cmd == "now") {
      tree.now = static_cast<Time>(std::stoul(tok[1]));
    } else if (cmd == "granularity") {
      tree.granularity = static_cast<Time>(std::stoul(tok[1]));
    } else if (cmd == "partition") {
      tree.partitions.push_back({static_cast<uint32_t>(std::stoul(tok[1])), tok[2],
                                 static_cast<size_t>(std::stoul(tok[3]))});
    } else if (cmd == "passes") {
      tree.critical = tok[1] == "1";
      tree.purge = tok[2] == "1";
      tree.dynamic = tok[3] == "1";
    } else if (cmd == "node") {
      NodeSpec n;
      n.kind = tok[2];
      n.name = tok[3];
      for (size_t i = 4; i < tok.size(); i++) n.args.push_back(tok[i]);
      tree.nodes[std::stoi(tok[1])] = n;
    } else if (cmd == "child") {
      tree.edges.push_back({std::stoi(tok[1]), std::stoi(tok[2])});
    } else if (cmd == "root") {
      tree.root = std::stoi(tok[1]);
    } else if (cmd == "end") {
      Built b = build(tree);
      if (!b.error.empty()) {
        // the tree was rejected; the nodes that were built still carry the time
        // bounds the passes left on them
        std::cout << "{\"error\":\"" << GurobiSolver::jsonEscape(b.error)
                  << "\",\"time_bounds\":{";
        bool firstNode = true;
        for (auto& [idx, e] : b.nodes) {
          if (!e) continue;
          auto tb = e->getTimeBounds();
          std::cout << (firstNode ? "" : ",") << "\"" << idx << "\":["
                    << tb.startTimeRange.first << "," << tb.startTimeRange.second << ","
                    << tb.endTimeRange.first << "," << tb.endTimeRange.second << "]";
          firstNode = false;
        }
        std::cout << "}}" << std::endl;
        continue;
      }
      std::cout << "{\"root_parse_type\":" << b.rootParseType << ",\"parse_types\":{";
      {
        // what the back-end itself concluded per node: -1 = never parsed,
        // otherwise the ParseResultType (EXPRESSION_NO_UTILITY marks a dead node)
        bool firstNode = true;
        for (auto& [idx, e] : b.nodes) {
          auto pr = e->getParsedResult();
          int t = pr.has_value() && pr.value() ? static_cast<int>(pr.value()->type) : -1;
          std::cout << (firstNode ? "" : ",") << "\"" << idx << "\":" << t;
          firstNode = false;
        }
      }
      std::cout << "},\"time_bounds\":{";
      {
        // the time bounds every node carries after the pre-translation passes:
        // [earliest start, latest start, earliest end, latest end]
        bool firstNode = true;
        for (auto& [idx, e] : b.nodes) {
          auto tb = e->getTimeBounds();
          std::cout << (firstNode ? "" : ",") << "\"" << idx << "\":["
                    << tb.startTimeRange.first << "," << tb.startTimeRange.second << ","
                    << tb.endTimeRange.first << "," << tb.endTimeRange.second << "]";
          firstNode = false;
        }
      }
      std::cout << "},\"duplicate_names\":"
                << (GurobiSolver::duplicateNames(b.model) ? "true" : "false")
                << ",\"model\":";
      GurobiSolver::dumpModel(b.model, std::cout);
      std::cout << "}" << std::endl;
    } else if (cmd == "sol") {
      Built b = build(tree);
      if (!b.error.empty()) {
        std::cout << "{\"error\":\"" << GurobiSolver::jsonEscape(b.error) << "\"}"
                  << std::endl;
        continue;
      }
      // Variables are addressed by their rank in creation order (ids grow with
      // every construction and some names embed a random expression id; the build is
      // deterministic, so the k-th variable of this tree is the k-th of the dump).
      auto vars = GurobiSolver::byRank(b.model);
      std::string err;
      size_t assigned = 0;
      for (size_t i = 1; i < tok.size(); i++) {
        auto eq = tok[i].rfind('=');
        if (eq == std::string::npos) continue;
        size_t rank = std::stoul(tok[i].substr(0, eq));
        if (rank >= vars.size()) {
          err = "unknown variable rank " + std::to_string(rank);
          break;
        }
        GurobiSolver::setValue(vars[rank], std::stod(tok[i].substr(eq + 1)));
        assigned++;
      }
      if (err.empty() && assigned != vars.size()) err = "not all variables assigned";
      if (!err.empty()) {
        std::cout << "{\"error\":\"" << GurobiSolver::jsonEscape(err) << "\"}"
                  << std::endl;
        continue;
      }
      try {
        b.root->populateResults(b.model);
        dumpSolution(tree, b, std::cout);
        std::cout << std::endl;
      } catch (std::exception& e) {
        std::cout << "{\"error\":\"populateResults: " << GurobiSolver::jsonEscape(e.what())
                  << "\"}" << std::endl;
      }
    }
  }
  return 0;
}
