"""C15 (and the Clockwork clauses of C12): per-invocation batch rules on every
ClockworkScheduler.schedule() call of a run, once-only placement over the run."""
from . import harness as H
from .monitor import us, demand_of

from workload import Placement

PT = Placement.PlacementType


class ClockworkMonitor(H.NullMonitor):
    def __init__(self, mon, world):
        self.mon = mon
        self.world = world
        self.violations = []
        self.stats = {}
        self.placed_once = {}
        self.cancelled = {}
        self.loaded = {}  # worker name -> {profile id: available_at}
        self.profile_name = {}

    def viol(self, rule, msg, props=("C15",), **kw):
        for p in props:
            if len(self.violations) < 30:
                d = {"prop": p, "rule": rule, "msg": msg, "t": self.mon.clock,
                     "event_index": self.mon.events}
                d.update(kw)
                self.violations.append(d)

    def stat(self, k, n=1):
        self.stats[k] = self.stats.get(k, 0) + n

    def on_worker_op(self, worker, op, args, exc):
        ws = self.mon.workers.get(id(worker))
        if ws is None or exc is not None:
            return
        a, k = args
        if op == "load_profile":
            profile, strategy = a[0], a[1]
            self.loaded.setdefault(ws.name, {})[profile.id] = \
                self.mon.clock + us(strategy.runtime)
            self.profile_name[profile.id] = profile.name
        elif op == "evict_profile":
            self.loaded.get(ws.name, {}).pop(a[0].id, None)

    def on_sched_post(self, sim, ev, placements, exc):
        mon = self.mon
        if mon.policy != "Clockwork" or placements is None:
            return
        now = mon.clock
        self.stat("clockwork_invocations")
        offered = list(mon.last_offer or [])
        groups = {}
        cancels = set()
        for p in placements:
            if p.placement_type == PT.CANCEL_TASK:
                cancels.add(mon.tkey(p.task))
                self.cancelled[mon.tkey(p.task)] = now
                self.stat("clockwork_cancellations")
            elif p.placement_type == PT.PLACE_TASK and p.is_placed():
                groups.setdefault(id(p.execution_strategy), []).append(p)
                key = mon.tkey(p.task)
                if key in self.placed_once:
                    self.viol("request.placed_twice",
                              f"{key} placed at {now}, already placed at "
                              f"{self.placed_once[key]}")
                self.placed_once[key] = now
                if key in self.cancelled:
                    self.viol("request.placed_after_cancel",
                              f"{key} placed at {now}, cancelled at "
                              f"{self.cancelled[key]}")
        # hopeless requests are cancelled in this invocation
        for t in offered:
            key = mon.tkey(t)
            fastest = min((s.runtime for s in mon.desc.strategies_of(t)), default=None)
            if fastest is None:
                continue
            hopeless = us(t.deadline) < now + fastest
            if hopeless and key not in cancels:
                self.viol("hopeless.not_cancelled",
                          f"{key} (deadline {us(t.deadline)}, fastest {fastest}) offered "
                          f"at {now} was not cancelled", props=("C15", "C12"))
            if not hopeless and key in cancels:
                self.viol("cancelled.not_hopeless",
                          f"{key} (deadline {us(t.deadline)}, fastest {fastest}) was "
                          f"cancelled at {now} although it can still meet its deadline",
                          props=("C15", "C12"))
        used_extra = {}
        for gid, ps in groups.items():
            st = ps[0].execution_strategy
            self.stat("clockwork_batches")
            rt = us(st.runtime)
            bs = st.batch_size
            if bs >= 2:
                self.stat("clockwork_batches_of_two_or_more")
            models = set()
            for p in ps:
                nd = mon.desc.node_of(p.task)
                models.add(nd.profile if nd else None)
            if len(models) != 1:
                self.viol("batch.mixed_models", f"batch at {now} mixes models {models}")
            if len(ps) != bs:
                self.viol("batch.size",
                          f"batch at {now} with a batch-size-{bs} strategy holds "
                          f"{len(ps)} requests: {[mon.tkey(p.task) for p in ps]}")
            if type(st).__name__ != "BatchStrategy":
                self.viol("batch.not_a_batch_strategy", f"placement at {now} uses a "
                                                        f"plain strategy")
            # the strategy is one of the model's, with that batch size
            ok = False
            for sd in mon.desc.strategies_of(ps[0].task):
                if sd.runtime == rt and sd.batch_size == bs and \
                        sd.demand == demand_of(st):
                    ok = True
            if not ok:
                self.viol("batch.foreign_strategy",
                          f"batch at {now}: strategy (runtime {rt}, batch {bs}) is not "
                          f"one of the model's")
            dl = min(us(p.task.deadline) for p in ps)
            if now + rt > dl:
                self.viol("batch.late",
                          f"batch at {now} with runtime {rt} completes at {now + rt} > "
                          f"earliest deadline {dl}", props=("C15", "C12"))
            if any(us(p.placement_time) != now for p in ps):
                self.viol("batch.time", f"batch decided at {now} placed for "
                                        f"{[us(p.placement_time) for p in ps]}")
            wids = set(p.worker_id for p in ps)
            if len(wids) != 1 or None in wids:
                self.viol("batch.workers", f"batch at {now} spans workers {wids}")
                continue
            wname = None
            for ws in mon.workers.values():
                if ws.live.id == ps[0].worker_id:
                    wname = ws.name
            if wname is None:
                self.viol("batch.unknown_worker", f"batch at {now}")
                continue
            ws = mon.workers_by_name[wname]
            nd = mon.desc.node_of(ps[0].task)
            avail = None
            for pid, at in self.loaded.get(wname, {}).items():
                if self.profile_name.get(pid, "").split("_")[0] == (nd.profile if nd
                                                                    else None) \
                        or self.profile_name.get(pid) == (nd.profile if nd else None):
                    avail = at
            if avail is None or avail > now:
                self.viol("batch.model_not_loaded",
                          f"batch of model {nd.profile if nd else '?'} at {now} on "
                          f"{wname} where the model is "
                          f"{'not loaded' if avail is None else f'loading until {avail}'}")
            dem = demand_of(st)
            extra = used_extra.setdefault(wname, {})
            un, _ui = ws.used()
            for (n, _i), q in dem.items():
                if un.get(n, 0) + extra.get(n, 0) + q > ws.cap_n.get(n, 0):
                    self.viol("batch.worker_cannot_hold",
                              f"batch at {now} on {wname}: {n} used "
                              f"{un.get(n, 0) + extra.get(n, 0)} + {q} > "
                              f"{ws.cap_n.get(n, 0)}")
            for (n, _i), q in dem.items():
                extra[n] = extra.get(n, 0) + q

    def on_end(self, sim, outcome):
        if self.mon.policy == "Clockwork":
            self.stat("clockwork_runs")
