"""E1: closed-world run explorer.  One job = one world explored over *all* its answer
tapes with the run monitor attached."""
from .tape import PREDICTION_KINDS, explore

TAPE_CAP = 400  # executions per world; a hit is reported as a cap, never hidden


def e1_job(world, props, extra_factory=None, tape_bound=None, tape_cap=TAPE_CAP):
    from . import harness as H
    from .monitor import RunMonitor

    agg = {
        "runs": 0, "events": 0, "states": set(), "sigs": set(), "stats": {},
        "violations": [], "status": {}, "tape_capped": 0, "tapes": 0,
        "max_tape_len": 0, "sample": None,
    }

    def run(prefix, arities):
        w = dict(world)
        w["tape"] = list(prefix)
        w["tape_arities"] = arities
        mon = RunMonitor(w, props)
        if extra_factory is not None:
            for f in extra_factory:
                mon.extra.append(_make_extra(f, mon, w))
        out = H.run_world(w, mon)
        return out.tape, (mon, out, w)

    if world.get("tape") is None:
        # real randomness, single execution
        mon = RunMonitor(world, props)
        if extra_factory is not None:
            for f in extra_factory:
                mon.extra.append(_make_extra(f, mon, world))
        out = H.run_world(world, mon)
        _accumulate(agg, mon, out, world)
        return _finish(agg)

    n = 0
    tape_bound = world.get("tape_bound", tape_bound)
    tape_cap = world.get("tape_cap", tape_cap)
    kinds = tuple(world.get("tape_bounded_kinds", PREDICTION_KINDS))
    for tape, (mon, out, w) in explore(run, max_runs=tape_cap, bound=tape_bound,
                                       bounded_kinds=kinds):
        n += 1
        w["tape"] = tape.choices_made()
        w["tape_arities"] = tape.arities()
        agg["max_tape_len"] = max(agg["max_tape_len"], len(tape.points))
        _accumulate(agg, mon, out, w)
    if n >= tape_cap:
        agg["tape_capped"] = 1
    agg["tapes"] = n
    return _finish(agg)


def _make_extra(name, mon, world):
    import importlib

    modname, cls = name.rsplit(".", 1)
    m = importlib.import_module(modname)
    return getattr(m, cls)(mon, world)


def _accumulate(agg, mon, out, world):
    s = mon.summary()
    agg["runs"] += 1
    agg["events"] += s["events"]
    agg["states"] |= s["states"]
    agg["sigs"].add(s["outcome_sig"])
    for k, v in s["stats"].items():
        agg["stats"][k] = agg["stats"].get(k, 0) + v
    agg["status"][out.status] = agg["status"].get(out.status, 0) + 1
    for e in mon.extra:
        for k, v in getattr(e, "stats", {}).items():
            agg["stats"][k] = agg["stats"].get(k, 0) + v
        for v in getattr(e, "violations", []):
            s["violations"].append(v)
    for v in s["violations"]:
        if len(agg["violations"]) < 6:
            rec = dict(v)
            rec["world"] = {k: world[k] for k in
                            ("workload", "cluster", "flags", "tape", "tape_arities",
                             "fmt", "preload", "tag", "adv") if k in world}
            agg["violations"].append(rec)
    if agg["sample"] is None:
        agg["sample"] = {"tag": world.get("tag"), "tape": world.get("tape"),
                         "status": out.status, "events": s["events"],
                         "rows_tail": (out.rows or [])[-3:]}


def _finish(agg):
    agg["states"] = list(agg["states"])
    agg["sigs"] = list(agg["sigs"])
    return agg


def replay_job(world, props, extra_factory=None):
    """Re-execute exactly one world+tape; returns the violations (without world)."""
    from . import harness as H
    from .monitor import RunMonitor

    mon = RunMonitor(world, props)
    if extra_factory is not None:
        for f in extra_factory:
            mon.extra.append(_make_extra(f, mon, world))
    out = H.run_world(world, mon)
    vs = list(mon.violations)
    for e in mon.extra:
        vs.extend(getattr(e, "violations", []))
    return {"violations": vs, "status": out.status, "rows": out.rows,
            "events": mon.events}


def conformance_job(world):
    """In-process rows vs the CSV written by a fresh `python main.py` process."""
    from . import harness as H

    w = dict(world)
    w["tape"] = None
    out = H.run_world(w, None)
    rows, rc, err = H.run_subprocess(w)

    def norm(rs):
        o = []
        for r in rs:
            if r.startswith("input_flag"):
                continue
            f = r.split(",")
            if len(f) > 1 and f[1] == "SCHEDULER_FINISHED":
                f[-1] = "*"
                r = ",".join(f)
            o.append(r)
        return o

    a, b = norm(out.rows), norm(rows)
    ok = a == b and (rc == 0) == (out.status == "ok")
    diff = None
    if not ok:
        for i, (x, y) in enumerate(zip(a, b)):
            if x != y:
                diff = (i, x, y)
                break
        if diff is None:
            diff = (min(len(a), len(b)), f"len {len(a)} status {out.status}",
                    f"len {len(b)} rc {rc} {err[-300:]}")
    return {"ok": ok, "diff": diff, "tag": world.get("tag"), "rows": len(a)}


def replay_job_sub(world, props, extra_factory=None):
    """Run replay_job in a fresh worker process (the parent never loads the repo)."""
    from .runner import pmap

    for r in pmap(replay_job, [world], extra=(props, extra_factory), chunk=1, procs=1):
        return r
