"""C08: the CSV trace and end-of-run counters tell the truth about the run.

Extension of the run monitor: an independent row parser checks every row against the
shadow automaton; then the same rows are written to a file and fed to the project's
own data.csv_reader.CSVReader, whose reconstruction must match the shadow."""
import os

from . import harness as H
from .monitor import us, DONE, CAN, demand_of

from workload import Placement

PT = Placement.PlacementType


class TraceMonitor(H.NullMonitor):
    def __init__(self, mon, world):
        self.mon = mon
        self.world = world
        self.violations = []
        self.stats = {}
        self.sched = []  # per invocation: dict(start, sim_offer, policy_offer, placed,...)
        self.cur = None
        self.deadlines = {}  # task key -> deadline observed at release
        self.graph_deadline = {}

    def viol(self, rule, msg, **kw):
        if len(self.violations) < 30:
            d = {"prop": "C08", "rule": rule, "msg": msg, "t": self.mon.clock,
                 "event_index": self.mon.events}
            d.update(kw)
            self.violations.append(d)

    def stat(self, k, n=1):
        self.stats[k] = self.stats.get(k, 0) + n

    # ---------------------------------------------------------------- observations
    def on_event_pre(self, sim, ev):
        from simulator import EventType

        if ev.event_type == EventType.SCHEDULER_START:
            self.cur = {"start": self.mon.clock, "sim_offer": None, "policy_offer": None,
                        "placed": None, "unplaced": None, "cancel": None,
                        "running": len(sim._worker_pools.get_placed_tasks())}
            self.sched.append(self.cur)
        else:
            if ev.event_type != EventType.SCHEDULER_FINISHED:
                pass

    def on_offer(self, wl, args, kwargs, ret):
        from simulator import EventType

        ev = self.mon.cur_event
        if self.cur is None or ev is None or ev.event_type != EventType.SCHEDULER_START:
            return
        if self.cur["sim_offer"] is None and not self.mon.in_sched:
            self.cur["sim_offer"] = len(ret)
        elif self.mon.in_sched and self.cur["policy_offer"] is None:
            self.cur["policy_offer"] = len(ret)

    def on_sched_post(self, sim, ev, placements, exc):
        if placements is None or self.cur is None:
            return
        placed = unplaced = cancel = 0
        for p in placements:
            if p.placement_type == PT.PLACE_TASK:
                if p.is_placed():
                    placed += 1
                else:
                    unplaced += 1
            elif p.placement_type == PT.CANCEL_TASK:
                cancel += 1
        self.cur.update(placed=placed, unplaced=unplaced, cancel=cancel,
                        runtime=us(placements.runtime),
                        branch_policy=sim._scheduler.policy.name)

    def on_task_op(self, task, op, args, pre, exc):
        if exc is None and op == "release":
            self.deadlines[self.mon.tkey(task)] = us(task.deadline)

    # ---------------------------------------------------------------- end of run
    def on_end(self, sim, outcome):
        if outcome.status != "ok" or sim is None:
            return
        rows = [r for r in (outcome.rows or []) if not r.startswith("input_flag")]
        self._check_rows(sim, rows)
        self._check_reader(sim, outcome.rows or [])

    def _check_rows(self, sim, rows):
        mon = self.mon
        T = mon.tasks
        by_id = {}
        for k, sh in T.items():
            by_id[sh.task.id] = sh
        seen = {"rel": {}, "place": {}, "fin": {}, "cancel": {}, "miss": {}, "sched": {}}
        tgf = {}
        tg_miss = {}
        sched_i = -1
        end = None
        last_t = 0
        for r in rows:
            f = r.split(",")
            try:
                t = int(f[0])
            except ValueError:
                self.viol("row.time_not_int", f"row {r!r}")
                continue
            if t < last_t:
                self.viol("row.time_decreases", f"row {r!r} after time {last_t}")
            last_t = t
            typ = f[1]
            if typ == "TASK_RELEASE":
                sh = by_id.get(f[7])
                if sh is None:
                    self.viol("release.unknown_task", r)
                    continue
                seen["rel"].setdefault(sh.key, []).append(t)
                exp_slowest = max((s.runtime for s in mon.desc.strategies_of(sh.task)),
                                  default=None)
                if (f[2], f[8]) != (sh.key[1], sh.key[0]):
                    self.viol("release.names", f"{r} for {sh.key}")
                if t != sh.release_t or int(f[5]) != sh.release_t:
                    self.viol("release.time", f"{r}: shadow release {sh.release_t}")
                if int(f[6]) != self.deadlines.get(sh.key):
                    self.viol("release.deadline",
                              f"{r}: deadline at release {self.deadlines.get(sh.key)}")
                if exp_slowest is not None and int(f[9]) != exp_slowest:
                    self.viol("release.slowest_runtime",
                              f"{r}: described slowest runtime {exp_slowest}")
                if int(f[3]) != sh.task.timestamp:
                    self.viol("release.timestamp", r)
                intended = us(sh.task.intended_release_time)
                if int(f[4]) != intended:
                    self.viol("release.intended", f"{r}: intended {intended}")
                # resources of the slowest strategy
                strs = mon.desc.strategies_of(sh.task)
                if strs:
                    slow = max(strs, key=lambda s: s.runtime)
                    got = {}
                    for i in range(10, len(f) - 2, 3):
                        got[(f[i], f[i + 1])] = got.get((f[i], f[i + 1]), 0) + int(f[i + 2])
                    cands = [s.demand for s in strs if s.runtime == slow.runtime]
                    if got not in cands:
                        self.viol("release.resources",
                                  f"{r}: described demand of slowest strategy "
                                  f"{cands}")
            elif typ == "TASK_SCHEDULED":
                sh = by_id.get(f[5])
                if sh is None:
                    self.viol("scheduled.unknown_task", r)
                    continue
                seen["sched"].setdefault(sh.key, []).append(
                    (t, int(f[7]), f[8], int(f[9])))
                if int(f[6]) != us(sh.task.deadline):
                    self.viol("scheduled.deadline", r)
            elif typ == "TASK_PLACEMENT":
                sh = by_id.get(f[5])
                if sh is None:
                    self.viol("placement.unknown_task", r)
                    continue
                seen["place"].setdefault(sh.key, []).append(t)
                if t != sh.start_t:
                    self.viol("placement.time", f"{r}: shadow start {sh.start_t}")
                pool = mon.pool_of_worker.get(sh.worker)
                if f[6] != pool:
                    self.viol("placement.pool", f"{r}: task runs on {sh.worker} of "
                                                f"pool {pool}")
                if sh.runtime is not None and int(f[7]) != sh.runtime:
                    self.viol("placement.runtime", f"{r}: strategy runtime {sh.runtime}")
                got = {}
                owners = set()
                for i in range(8, len(f) - 2, 3):
                    got[f[i]] = got.get(f[i], 0) + int(f[i + 2])
                    owners.add(mon.res_id_owner.get(f[i + 1]))
                need = {}
                for (n, _i), q in (sh.demand or {}).items():
                    need[n] = need.get(n, 0) + q
                if got != need:
                    self.viol("placement.resources",
                              f"{r}: lists {got}, strategy demands {need}")
                if owners and owners != {sh.worker}:
                    self.viol("placement.resource_owner",
                              f"{r}: resources of {owners}, task resident on "
                              f"{sh.worker}")
            elif typ == "TASK_FINISHED":
                sh = by_id.get(f[7])
                if sh is None:
                    self.viol("finished.unknown_task", r)
                    continue
                seen["fin"].setdefault(sh.key, []).append(t)
                if t != sh.finish_t or int(f[5]) != sh.finish_t:
                    self.viol("finished.time", f"{r}: shadow finish {sh.finish_t}")
                if int(f[6]) != us(sh.task.deadline):
                    self.viol("finished.deadline", r)
            elif typ == "TASK_CANCEL":
                sh = by_id.get(f[4])
                if sh is None:
                    self.viol("cancel.unknown_task", r)
                    continue
                seen["cancel"].setdefault(sh.key, []).append(t)
                if t != sh.cancel_t:
                    self.viol("cancel.time", f"{r}: shadow cancel {sh.cancel_t}")
                if f[5] != sh.key[0] or f[2] != sh.key[1]:
                    self.viol("cancel.names", r)
            elif typ == "MISSED_DEADLINE":
                sh = by_id.get(f[5])
                if sh is None:
                    self.viol("missed.unknown_task", r)
                    continue
                seen["miss"].setdefault(sh.key, []).append(t)
                if int(f[4]) != us(sh.task.deadline):
                    self.viol("missed.deadline_field", r)
            elif typ == "TASK_GRAPH_RELEASE":
                self.graph_deadline[f[4]] = int(f[3])
            elif typ == "TASK_GRAPH_FINISHED":
                tgf[f[2]] = (t, int(f[3]), int(f[4]))
            elif typ == "MISSED_TASK_GRAPH_DEADLINE":
                tg_miss.setdefault(f[2], []).append(t)
            elif typ == "SCHEDULER_START":
                sched_i += 1
                if sched_i >= len(self.sched):
                    self.viol("scheduler.extra_start_row", r)
                    continue
                rec = self.sched[sched_i]
                rec["row_offer"] = int(f[2])
                if t != rec["start"]:
                    self.viol("scheduler.start_time", f"{r}: invoked at {rec['start']}")
                if rec["sim_offer"] is not None and int(f[2]) != rec["sim_offer"]:
                    self.viol("scheduler.offered_count",
                              f"{r}: {rec['sim_offer']} tasks were schedulable")
                if int(f[3]) != rec["running"]:
                    self.viol("scheduler.running_count",
                              f"{r}: {rec['running']} tasks were placed")
                # (with the RANDOM branch policy the simulator's and the policy's own
                # frontier computations draw different random answers)
                if rec["policy_offer"] is not None and \
                        rec.get("branch_policy") != "RANDOM" and \
                        mon.policy not in ("EDF", "FIFO", "LSF") and \
                        rec["policy_offer"] != int(f[2]):
                    self.viol("scheduler.offered_vs_policy",
                              f"{r}: the policy itself was offered {rec['policy_offer']}")
            elif typ == "SCHEDULER_FINISHED":
                if sched_i < 0 or sched_i >= len(self.sched):
                    self.viol("scheduler.orphan_finish_row", r)
                    continue
                rec = self.sched[sched_i]
                if rec["placed"] is None:
                    continue
                self.stat("scheduler_rows")
                if int(f[3]) != rec["placed"]:
                    self.viol("scheduler.placed_count",
                              f"{','.join(f[:5])}: {rec['placed']} tasks were placed")
                if int(f[4]) != rec["unplaced"]:
                    self.viol("scheduler.unplaced_count",
                              f"{','.join(f[:5])}: {rec['unplaced']} offered tasks were "
                              f"left unplaced", unplaced=rec["unplaced"])
                if rec["unplaced"]:
                    self.stat("invocations_with_unplaced")
                if int(f[2]) != rec.get("runtime", int(f[2])):
                    self.viol("scheduler.runtime",
                              f"{','.join(f[:5])}: runtime {rec.get('runtime')}")
            elif typ == "SIMULATOR_END":
                end = [int(x) for x in f[2:8]]
        # per-task completeness
        n_missed = 0
        for k, sh in T.items():
            if sh.release_t is not None and len(seen["rel"].get(k, [])) != 1:
                # a task scheduled ahead of release and never released has no row
                self.viol("release.row_count",
                          f"{k}: {len(seen['rel'].get(k, []))} TASK_RELEASE rows")
            if len(seen["place"].get(k, [])) != sh.n_start:
                self.viol("placement.row_count",
                          f"{k}: {len(seen['place'].get(k, []))} TASK_PLACEMENT rows, "
                          f"{sh.n_start} starts")
            if len(seen["fin"].get(k, [])) != sh.n_finish:
                self.viol("finished.row_count",
                          f"{k}: {len(seen['fin'].get(k, []))} TASK_FINISHED rows, "
                          f"{sh.n_finish} completions")
            if len(seen["cancel"].get(k, [])) != sh.n_cancel:
                self.viol("cancel.row_count",
                          f"{k}: {len(seen['cancel'].get(k, []))} TASK_CANCEL rows, "
                          f"{sh.n_cancel} cancellations")
            missed = sh.finish_t is not None and sh.finish_t > us(sh.task.deadline)
            n_missed += 1 if missed else 0
            if missed != (len(seen["miss"].get(k, [])) == 1) or \
                    len(seen["miss"].get(k, [])) > 1:
                self.viol("missed.iff_late",
                          f"{k}: finish {sh.finish_t} deadline {us(sh.task.deadline)} "
                          f"MISSED_DEADLINE rows {seen['miss'].get(k, [])}")
            if missed:
                self.stat("missed_deadlines")
        # graphs
        n_fin_graphs = n_cancel_graphs = n_missed_graphs = 0
        for tg in sim._workload.task_graphs.values():
            g = mon.desc.graph_of(tg.name)
            if g is None:
                continue
            sinks = [T.get((tg.name, s)) for s in g.sinks()]
            done = all(s is not None and s.state == DONE for s in sinks)
            dead = mon.dead_set(tg.name)
            cancelled = any(s is not None and (s.state == CAN or s.key[1] in dead)
                            for s in sinks)
            gdl = max(us(t.deadline) for t in tg.get_nodes())
            if done:
                n_fin_graphs += 1
                ct = max(s.finish_t for s in sinks)
                row = tgf.get(tg.name)
                if row is None:
                    self.viol("graph_finished.missing", f"{tg.name} finished at {ct}")
                else:
                    if row[0] != ct:
                        self.viol("graph_finished.time", f"{tg.name}: row at {row[0]}, "
                                                         f"last sink at {ct}")
                    if row[1] != gdl:
                        self.viol("graph_finished.deadline",
                                  f"{tg.name}: row deadline {row[1]} != {gdl}")
                    if row[2] != max(0, ct - gdl):
                        self.viol("graph_finished.tardiness",
                                  f"{tg.name}: row tardiness {row[2]} != "
                                  f"{max(0, ct - gdl)}")
                if ct > gdl:
                    n_missed_graphs += 1
                    self.stat("missed_graph_deadlines")
            elif tg.name in tgf:
                self.viol("graph_finished.spurious", f"{tg.name} has a "
                                                     f"TASK_GRAPH_FINISHED row")
            if cancelled:
                n_cancel_graphs += 1
                self.stat("cancelled_graphs")
        if end is None:
            self.viol("end.row_missing", "no SIMULATOR_END row")
            return
        fin = sum(sh.n_finish for sh in T.values())
        can = sum(1 for sh in T.values() if sh.state == CAN)
        exp = [fin, can, n_missed, n_fin_graphs, n_cancel_graphs, n_missed_graphs]
        names = ["finished_tasks", "cancelled_tasks", "missed_task_deadlines",
                 "finished_task_graphs", "cancelled_task_graphs",
                 "missed_task_graph_deadlines"]
        for nm, a, b in zip(names, end, exp):
            if a != b:
                self.viol("end." + nm, f"SIMULATOR_END reports {nm}={a}, the run had {b}")
        self.stat("runs_with_rows_checked")
        self.stat("rows_checked", len(rows))

    # ---------------------------------------------------------------- project reader
    def _check_reader(self, sim, rows):
        from data.csv_reader import CSVReader

        mon = self.mon
        path = os.path.join(H.scratch_dir(), "trace.csv")
        with open(path, "w") as f:
            for r in rows:
                f.write(r + "\n")
        try:
            rd = CSVReader([path])
        except BaseException as e:  # noqa: B902
            cause = e.__cause__ if e.__cause__ is not None else e
            kind = type(cause).__name__
            self.viol("reader.rejects_trace",
                      f"CSVReader raised {type(e).__name__}: {str(e)[:160]} "
                      f"(cause {kind}: {str(cause)[:80]})", reader_error=kind,
                      assertion=isinstance(cause, AssertionError))
            return
        self.stat("traces_accepted_by_reader")
        tasks = {t.task_id: t for t in rd.get_tasks(path)}
        for k, sh in mon.tasks.items():
            rt = tasks.get(sh.task.id)
            if sh.release_t is None and sh.n_cancel == 0:
                continue
            if rt is None:
                self.viol("reader.task_missing", f"{k} not reconstructed")
                continue
            if sh.release_t is not None and rt.release_time != sh.release_t:
                self.viol("reader.release_time", f"{k}: reader {rt.release_time}, run "
                                                 f"{sh.release_t}")
            if sh.n_start and rt.placement_time != sh.start_t and sh.n_preempt == 0:
                self.viol("reader.placement_time", f"{k}: reader {rt.placement_time}, "
                                                   f"run {sh.start_t}")
            if (rt.completion_time is not None) != (sh.n_finish > 0) or (
                    sh.n_finish and rt.completion_time != sh.finish_t):
                self.viol("reader.completion_time",
                          f"{k}: reader {rt.completion_time}, run {sh.finish_t}")
            if bool(rt.cancelled) != (sh.state == CAN):
                self.viol("reader.cancelled", f"{k}: reader {rt.cancelled}, run "
                                              f"{sh.state.name}")
            late = sh.finish_t is not None and sh.finish_t > us(sh.task.deadline)
            if bool(rt.missed_deadline) != late:
                self.viol("reader.missed_deadline", f"{k}: reader {rt.missed_deadline}")
        graphs = rd.get_task_graph(path)
        for tg in sim._workload.task_graphs.values():
            g = mon.desc.graph_of(tg.name)
            rg = graphs.get(tg.name)
            if rg is None:
                self.viol("reader.graph_missing", f"{tg.name} not reconstructed")
                continue
            if g is None:
                continue
            sinks = [mon.tasks.get((tg.name, s)) for s in g.sinks()]
            done = all(s is not None and s.state == DONE for s in sinks)
            if bool(rg.was_completed) != done:
                self.viol("reader.graph_completed", f"{tg.name}: reader "
                                                    f"{rg.was_completed}, run {done}")
            dead = mon.dead_set(tg.name)
            cancelled = any(s is not None and (s.state == CAN or s.key[1] in dead)
                            for s in sinks)
            if bool(rg.cancelled) != cancelled:
                self.viol("reader.graph_cancelled",
                          f"{tg.name}: reader says cancelled={rg.cancelled}, in the run "
                          f"cancelled={cancelled}")
