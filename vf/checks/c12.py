"""C12 -- deadline enforcement (engines E4 + direct calls + E1).

* direct: hopeless / exactly tight / loose deadlines x strategy sets x policies with
  enforcement -> hopeless tasks are cancelled (EDF, FIFO, TetriSched-CPLEX) or left
  unplaced (ILP, TetriSched-Gurobi), never placed; nothing else is cancelled;
* E4: on every feasible point of the ILP / TetriSched-Gurobi / TetriSched-CPLEX model,
  start + chosen runtime <= deadline;
* E1: planner runs with exact runtimes: every task that completes does so by its
  deadline (rule `finish.after_deadline` of the run monitor)."""
from . import _e4props, _e1props
from .. import e4_instances as EI
from ..checklib import combine_and_finish


def instances(tier, seed):
    th = tier == "thorough"
    dls = ("hopeless", "exact", "exact+1", "tight", "loose")
    for pol in ("ILP", "TSG", "TSC"):
        # ILP: task-by-task mode only (with release_taskgraphs the policy documents
        # that graphs hit by a misprediction may miss their deadline)
        keys = ("plain", "la", "la+retract") if pol == "ILP" else \
            ("plain", "la", "rtg", "la+retract")
        yield from EI.gen(
            [pol], tier, seed, max_n=3 if th else 2,
            variants=(0, 1, 2) if th else (0, 1), clusters=("c2", "c1c1"),
            progress=("fresh", "running", "completed"), deadlines=dls,
            opt_keys=keys)
        if not th:
            yield from EI.gen([pol], tier, seed, shapes=("chain3", "fork", "indep3"),
                              max_n=3, variants=(0,), clusters=("c2",),
                              progress=("fresh",), deadlines=("exact", "tight"),
                              opt_keys=("la",) if pol == "ILP" else ("la", "rtg"))
    for pol in ("EDF", "FIFO"):
        yield from EI.gen(
            [pol], tier, seed, max_n=3, variants=(0, 1, 2), clusters=("c2", "c1c1", "c1"),
            progress=("fresh", "running", "completed"), deadlines=dls,
            opt_keys=("enf",))


def main(tier, seed):
    e4 = _e4props.run(
        "C12", tier, seed, instances(tier, seed), finish=False,
        rule="deadline classes {hopeless, exactly tight, +1, tight, loose} x strategy "
             "variants x clusters x progress x {ILP, TetriSched-Gurobi, TetriSched-CPLEX} "
             "(all decision points) and {EDF, FIFO}+enforce (returned decision)",
        required=("decision_points", "feasible_points", "returned_plan_located",
                  "instances_with_hopeless_task", "instances_with_cancellation"))
    e1 = _e1props.main("C12", tier, seed, finish=False,
                       extra_factory=["vf.cw_monitor.ClockworkMonitor"])
    combine_and_finish("C12", tier, seed, [("E4-models+direct", e4), ("E1-runs", e1)])


def replay(path):
    import json

    with open(path) as f:
        d = json.load(f)
    if d.get("engine") == "e1":
        return _e1props.replay("C12", path,
                               extra_factory=["vf.cw_monitor.ClockworkMonitor"])
    return _e4props.replay("C12", path)
