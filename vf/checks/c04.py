"""C04 -- resource ledger conservation under all operation histories (engine E2).

Breadth-first search over operation histories on real Resources / WorkerPool objects
(a state is the history that reaches it; fresh objects are rebuilt and the history
replayed), de-duplicated on a canonical tuple of all public getter values, with a
boring reference ledger.  Copies are operations after which both objects stay in the
alphabet."""
from ..checklib import run_generic, generic_replay

# ----------------------------------------------------------------------- fixtures
STRATS = {
    # name: (demand {(rname, rid): q}, batch_size, batch?)
    "A1": ({("CPU", "any"): 1}, 1, False),
    "A2": ({("CPU", "any"): 2}, 1, False),
    "SA": ({("CPU", "a"): 1}, 1, False),
    "MX": ({("CPU", "any"): 1, ("GPU", "any"): 1}, 1, False),
    "b1": ({("GPU", "any"): 1}, 2, True),
    "b2": ({("GPU", "any"): 1}, 2, True),
    "c1": ({("CPU", "any"): 1}, 2, True),
}
TASK_STRATS = {"T1": ("A1", "SA", "b1", "c1"), "T2": ("A2", "MX", "b1", "c1"),
               "T3": ("A1", "MX", "b1", "b2")}
WORKERS = {"W1": [("CPU", "a", 1), ("CPU", "b", 1), ("GPU", "g", 1)],
           # the same (name, id) key as on W1: pool-level sums must add, not overwrite
           "W2": [("CPU", "a", 2)]}
LOAD = {("GPU", "any"): 1}
LOAD_RT = 2


class World(object):
    """Fresh real objects for one replay."""

    def __init__(self):
        from utils import EventTime
        from workers import Worker, WorkerPool
        from workload import (BatchStrategy, ExecutionStrategies, ExecutionStrategy,
                              Job, Resource, Resources, Task, WorkProfile)

        import random

        random.seed(4)  # ids only; makes messages reproducible
        self.ET = EventTime
        US = EventTime.Unit.US
        self.Resource = Resource

        def res(dem):
            return Resources({Resource(n, i): q for (n, i), q in dem.items()})

        self.strats = {}
        for k, (dem, bs, batch) in STRATS.items():
            es = ExecutionStrategy(res(dem), bs, EventTime(3, US))
            self.strats[k] = BatchStrategy(es) if batch else es
        self.profile = WorkProfile(
            "P", ExecutionStrategies([self.strats["A1"]]),
            ExecutionStrategies([ExecutionStrategy(res(LOAD), 1, EventTime(LOAD_RT, US))]))
        self.load_strategy = self.profile.loading_strategies[0]
        self.tasks = {}
        for t in TASK_STRATS:
            job = Job(name=t, profile=WorkProfile(
                "p" + t, ExecutionStrategies(
                    [self.strats[s] for s in TASK_STRATS[t] if not STRATS[s][2]])))
            self.tasks[t] = Task(name=t, task_graph="G", job=job,
                                 deadline=EventTime(100, US))
        ws = []
        for wn, rl in WORKERS.items():
            ws.append(Worker(wn, Resources({Resource(n, i): q for n, i, q in rl})))
        self.pools = [WorkerPool("WP", workers=ws)]  # index 0 = original, 1 = the copy
        self.copy_kind = None
        self.time = 0

    def worker(self, target, wn):
        for w in self.pools[target].workers:
            if w.name == wn:
                return w


def getters(world, target):
    """Every public getter value of one pool (the observable state)."""
    pool = world.pools[target]
    R = world.Resource
    out = []
    for w in sorted(pool.workers, key=lambda x: x.name):
        r = w.resources
        per = []
        for n, i, _q in WORKERS[w.name]:
            x = R(n, i)
            per.append((n, i, r.get_available_quantity(x), r.get_allocated_quantity(x),
                        r.get_total_quantity(x)))
        for n in sorted(set(n for n, _i, _q in WORKERS[w.name])):
            x = R(n, "any")
            per.append((n, "any", r.get_available_quantity(x),
                        r.get_allocated_quantity(x), r.get_total_quantity(x)))
        placed = tuple(sorted(t.name for t in w.get_placed_tasks()))
        fits = tuple(w.can_accomodate_strategy(world.strats[s]) for s in sorted(STRATS))
        avail = (world.profile in w.get_available_profiles(),
                 world.profile in w.get_pending_profiles(),
                 w.is_available(world.profile).time)
        out.append((w.name, tuple(per), placed, fits, avail, w.is_full()))
    out.append(tuple(sorted(t.name for t in pool.get_placed_tasks())))
    out.append(pool.is_full())
    return tuple(out)


# ----------------------------------------------------------------------- reference
class RefPool(object):
    """Boring ledger: who is resident where with which demand (batch once)."""

    def __init__(self):
        self.resident = {}  # task -> (worker, strat name)
        self.profiles = {}  # worker -> [remaining or 0, 'pending'|'available']

    def clone(self, empty=False):
        r = RefPool()
        if not empty:
            r.resident = dict(self.resident)
            r.profiles = {k: list(v) for k, v in self.profiles.items()}
        return r

    def used_by_name(self, wn):
        used = {}
        seen_batches = set()
        for t, (w, s) in self.resident.items():
            if w != wn:
                continue
            dem, _bs, batch = STRATS[s]
            if batch:
                if s in seen_batches:
                    continue
                seen_batches.add(s)
            for (n, _i), q in dem.items():
                used[n] = used.get(n, 0) + q
        if wn in self.profiles:
            for (n, _i), q in LOAD.items():
                used[n] = used.get(n, 0) + q
        return used

    def batch_members(self, wn, s):
        return [t for t, (w, s2) in self.resident.items() if w == wn and s2 == s]


def total_by_name(wn):
    out = {}
    for n, _i, q in WORKERS[wn]:
        out[n] = out.get(n, 0) + q
    return out


def check_against_reference(world, target, ref, bad, hist):
    """Observables vs reference ledger for one pool."""
    g = getters(world, target)
    for entry in g[:-2]:
        wn, per, placed, fits, avail, _full = entry
        used = ref.used_by_name(wn)
        tot = total_by_name(wn)
        by_name_avail = {}
        for (n, i, av, al, to) in per:
            if i == "any":
                if to != tot[n]:
                    bad("total.changed", f"{wn} {n}: total {to} != configured {tot[n]}")
                if av != tot[n] - used.get(n, 0):
                    bad("ledger.available",
                        f"{wn} {n}: available {av}, reference {tot[n]} - "
                        f"{used.get(n, 0)} held by residents")
                if av + al != to:
                    bad("ledger.sum", f"{wn} {n}: available {av} + allocated {al} != "
                                      f"{to}")
            else:
                by_name_avail[n] = by_name_avail.get(n, 0) + av
                if av < 0 or av > to:
                    bad("ledger.id_range", f"{wn} {n}:{i} available {av} of {to}")
        for (n, i, av, al, to) in per:
            if i == "any" and by_name_avail.get(n) != av:
                bad("ledger.id_sum", f"{wn} {n}: ids sum to {by_name_avail.get(n)} but "
                                     f"name reports {av}")
        exp_placed = tuple(sorted(t for t, (w, _s) in ref.resident.items() if w == wn))
        if placed != exp_placed:
            bad("placed.mismatch", f"{wn}: get_placed_tasks {placed}, reference "
                                   f"{exp_placed}")
        # can_accomodate  <=>  reference fit on the observable availabilities
        w = world.worker(target, wn)
        for k, sname in enumerate(sorted(STRATS)):
            dem, bs, batch = STRATS[sname]
            fit = True
            for (n, i), q in dem.items():
                x = world.Resource(n, i)
                if w.resources.get_available_quantity(x) < q:
                    fit = False
            members = ref.batch_members(wn, sname)
            if batch and members:
                fit = True
            if fits[k] != fit:
                bad("can_accomodate",
                    f"{wn}: can_accomodate_strategy({sname})={fits[k]}, reference {fit} "
                    f"(batch members resident: {members})", strategy=sname)
        p = ref.profiles.get(wn)
        exp = (False, False, -1) if p is None else (
            (True, False, 0) if p[1] == "available" else (False, True, p[0]))
        if avail != exp:
            bad("profile.state", f"{wn}: profile (available,pending,time)={avail}, "
                                 f"reference {exp}")
    # the pool's aggregated view (WorkerPool.resources) is the sum of its workers'
    pool_res = world.pools[target].resources
    for n in sorted(set(n for wn in WORKERS for n, _i, _q in WORKERS[wn])):
        x = world.Resource(n, "any")
        sums = [0, 0, 0]
        for w in world.pools[target].workers:
            sums[0] += w.resources.get_available_quantity(x)
            sums[1] += w.resources.get_allocated_quantity(x)
            sums[2] += w.resources.get_total_quantity(x)
        got = [pool_res.get_available_quantity(x), pool_res.get_allocated_quantity(x),
               pool_res.get_total_quantity(x)]
        if got != sums:
            bad("pool.aggregate", f"WorkerPool.resources reports {n} (available, "
                                  f"allocated, total)={got}, its workers sum to {sums}")
    exp_pool = tuple(sorted(ref.resident))
    if g[-2] != exp_pool:
        bad("placed.pool_mismatch", f"pool get_placed_tasks {g[-2]}, reference "
                                    f"{exp_pool}")
    # allocation records of every resident
    pool = world.pools[target]
    for t, (wn, s) in ref.resident.items():
        try:
            al = world.worker(target, wn).get_allocated_resources(world.tasks[t])
        except Exception as e:  # noqa: B902
            bad("alloc_record.raises", f"get_allocated_resources({t}) on {wn}: {e!r}")
            continue
        got = {}
        for r, q in al:
            got[r.name] = got.get(r.name, 0) + q
        need = {}
        for (n, _i), q in STRATS[s][0].items():
            need[n] = need.get(n, 0) + q
        if got != need:
            bad("alloc_record", f"{t} on {wn} with {s}: recorded {got}, demand {need}")
    del pool
    return g


# ----------------------------------------------------------------------- operations
def enabled_ops(world, refs, alphabet):
    ops = []
    targets = range(len(world.pools))
    for tg in targets:
        ref = refs[tg]
        for t in TASK_STRATS:
            if t in ref.resident:
                ops.append(("remove", tg, t))
            else:
                for s in TASK_STRATS[t]:
                    if alphabet == "batch" and not STRATS[s][2]:
                        continue
                    for wn in (None, "W1", "W2"):
                        if alphabet == "batch" and wn == "W2":
                            continue
                        ops.append(("place", tg, t, s, wn))
        if alphabet != "batch":
            for wn in WORKERS:
                if wn in ref.profiles:
                    ops.append(("evict", tg, wn))
                else:
                    ops.append(("load", tg, wn))
            if any(v[1] == "pending" for v in ref.profiles.values()):
                ops.append(("step", tg, 1))
    if len(world.pools) == 1:
        ops.append(("copy",))
        ops.append(("deepcopy",))
    return ops


def apply_op(world, refs, op, bad):
    """Apply one op to the real objects and to the reference; checks refusal rules."""
    from copy import copy, deepcopy

    kind = op[0]
    if kind in ("copy", "deepcopy"):
        before = getters(world, 0)
        c = copy(world.pools[0]) if kind == "copy" else deepcopy(world.pools[0])
        world.pools.append(c)
        world.copy_kind = kind
        refs.append(refs[0].clone(empty=(kind == "deepcopy")))
        if getters(world, 0) != before:
            bad("copy.changed_original", f"{kind} changed the original's getters")
        return
    tg = op[1]
    pool = world.pools[tg]
    ref = refs[tg]
    others = [i for i in range(len(world.pools)) if i != tg]
    before_other = {i: getters(world, i) for i in others}
    before_self = getters(world, tg)
    ET, US = world.ET, world.ET.Unit.US
    if kind == "place":
        _k, _tg, t, s, wn = op
        task, strat = world.tasks[t], world.strats[s]
        dem, bs, batch = STRATS[s]
        wid = world.worker(tg, wn).id if wn else None
        # reference decision on the observable availabilities: which workers could
        cands = [wn] if wn else list(WORKERS)
        can = []
        for c in cands:
            w = world.worker(tg, c)
            members = ref.batch_members(c, s)
            if batch and members:
                if len(members) < bs:
                    can.append(c)
                else:
                    can.append(c + "!full")
                continue
            if all(w.resources.get_available_quantity(world.Resource(n, i)) >= q
                   for (n, i), q in dem.items()):
                can.append(c)
        ok, exc = None, None
        try:
            ok = pool.place_task(task, execution_strategy=strat, worker_id=wid)
        except Exception as e:  # noqa: B902
            exc = e
        accepted = ok is True and exc is None
        real_can = [c for c in can if not c.endswith("!full")]
        if accepted:
            placed_on = None
            for w in pool.workers:
                if task in w.get_placed_tasks():
                    placed_on = w.name
            if placed_on is None:
                bad("place.accepted_but_absent", f"{op}: accepted but task on no worker")
            elif placed_on not in real_can:
                bad("place.accepted_unfit",
                    f"{op}: accepted on {placed_on} where the reference says it does "
                    f"not fit (fits on {can})")
            ref.resident[t] = (placed_on, s)
        else:
            if real_can and exc is None:
                bad("place.refused_fit", f"{op}: refused although it fits on {real_can}")
            if exc is not None and real_can:
                bad("place.raised_fit", f"{op}: raised {exc!r} although it fits on "
                                        f"{real_can}")
            after = getters(world, tg)
            if after != before_self:
                bad("refusal.changed_state",
                    f"{op}: refused ({exc!r}) but the getters changed", op=list(op))
    elif kind == "remove":
        _k, _tg, t = op
        try:
            pool.remove_task(ET(world.time, US), world.tasks[t])
        except Exception as e:  # noqa: B902
            bad("remove.raises", f"{op}: raised {e!r} for a resident task", op=list(op))
        ref.resident.pop(t, None)
    elif kind == "load":
        _k, _tg, wn = op
        w = world.worker(tg, wn)
        fit = all(w.resources.get_available_quantity(world.Resource(n, i)) >= q
                  for (n, i), q in LOAD.items())
        exc = None
        try:
            pool.load_profile(world.profile, world.load_strategy, w.id)
        except Exception as e:  # noqa: B902
            exc = e
        if exc is None:
            if not fit:
                bad("load.accepted_unfit", f"{op}: accepted without room")
            ref.profiles[wn] = [LOAD_RT, "pending"]
        else:
            if fit:
                bad("load.refused_fit", f"{op}: raised {exc!r} although it fits")
            if getters(world, tg) != before_self:
                bad("refusal.changed_state", f"{op}: refused but the getters changed",
                    op=list(op))
    elif kind == "evict":
        _k, _tg, wn = op
        try:
            pool.evict_profile(world.profile, world.worker(tg, wn).id)
        except Exception as e:  # noqa: B902
            bad("evict.raises", f"{op}: raised {e!r}", op=list(op))
        ref.profiles.pop(wn, None)
    elif kind == "step":
        _k, _tg, dt = op
        pool.step(ET(world.time, US), ET(dt, US))
        for wn, p in ref.profiles.items():
            if p[1] == "pending":
                p[0] -= dt
                if p[0] <= 0:
                    p[0], p[1] = 0, "available"
    # independence of the other object
    for i in others:
        if getters(world, i) != before_other[i]:
            bad("copy.not_independent",
                f"{op} on object {tg} changed the getters of object {i} "
                f"({world.copy_kind})", op=list(op))


def build(hist, bad=None):
    world = World()
    refs = [RefPool()]
    sink = bad or (lambda *a, **k: None)
    for op in hist:
        apply_op(world, refs, tuple(op), sink)
    return world, refs


def canon(world, refs):
    return (tuple(getters(world, i) for i in range(len(world.pools))), world.copy_kind,
            tuple(tuple(sorted(r.resident.items())) for r in refs))


def drain_check(hist, bad):
    """Removing everything restores full capacity (on a rebuilt copy of the state)."""
    world, refs = build(hist)
    ET, US = world.ET, world.ET.Unit.US
    for tg, ref in enumerate(refs):
        pool = world.pools[tg]
        try:
            for t in list(ref.resident):
                pool.remove_task(ET(0, US), world.tasks[t])
            for wn in list(ref.profiles):
                pool.evict_profile(world.profile, world.worker(tg, wn).id)
        except Exception as e:  # noqa: B902
            bad("drain.raises", f"removing everything from object {tg} raised {e!r}")
            continue
        for w in pool.workers:
            for n, i, q in WORKERS[w.name]:
                av = w.resources.get_available_quantity(world.Resource(n, i))
                if av != q:
                    bad("drain.not_restored",
                        f"object {tg} {w.name} {n}:{i}: {av} of {q} available after "
                        f"removing everything")
            if w.get_placed_tasks():
                bad("drain.tasks_left", f"object {tg} {w.name} still lists tasks")


def bfs_job(item, tier):
    from .. import bootstrap  # noqa: F401

    _k, alphabet, prefix, depth = item
    prefix = tuple(tuple(o) for o in prefix)
    out = []
    stats = {"refusals": 0, "accepted_places": 0, "copies": 0, "batch_places": 0}
    transitions = 0

    def mkbad(hist):
        def bad(rule, msg, **kw):
            if len(out) < 25:
                out.append({"rule": rule, "msg": f"history {list(hist)}: {msg}",
                            "case": {"history": [list(o) for o in hist]}})
        return bad

    world, refs = build(prefix)
    seen = {canon(world, refs)}
    frontier = [prefix]
    for d in range(len(prefix), depth):
        nxt = []
        for hist in frontier:
            world, refs = build(hist)
            for op in enabled_ops(world, refs, alphabet):
                h2 = hist + (op,)
                bad = mkbad(h2)
                w2, r2 = build(hist)
                apply_op(w2, r2, op, bad)
                transitions += 1
                if op[0] == "place":
                    if op[2] in r2[op[1]].resident:
                        stats["accepted_places"] += 1
                        if STRATS[op[3]][2]:
                            stats["batch_places"] += 1
                    else:
                        stats["refusals"] += 1
                elif op[0] in ("copy", "deepcopy"):
                    stats["copies"] += 1
                for tg in range(len(w2.pools)):
                    check_against_reference(w2, tg, r2[tg], bad, h2)
                if op[0] in ("copy", "deepcopy"):
                    g0, g1 = getters(w2, 0), getters(w2, 1)
                    if op[0] == "copy" and g0 != g1:
                        bad("copy.differs", "a shallow copy differs from the original "
                                            "on a public getter")
                c = canon(w2, r2)
                if c not in seen:
                    seen.add(c)
                    nxt.append(h2)
                    drain_check(h2, bad)
        frontier = nxt
        if not frontier:
            stats["fixpoint"] = 1
            break
    return {"states": len(seen), "transitions": transitions, "validated": transitions,
            "evaluations": transitions, "stats": stats, "violations": out,
            "distinct": [hash(c) for c in seen],
            "samples": [{"alphabet": alphabet, "prefix": [list(o) for o in prefix],
                         "depth": depth, "states": len(seen)}]}


# ----------------------------------------------------------------------- bare Worker
def worker_job(item, tier):
    """BFS on one bare Worker through its *own* place_task / remove_task, without the
    pool's admission test in front: every strategy is offered in every state, so
    refusals (exceptions) of requests that do not fit are part of the alphabet.  "A
    refused request changes nothing" is judged on every public observable, including
    can_accomodate_strategy for every strategy."""
    from .. import bootstrap  # noqa: F401

    _k, wn, depth = item
    out = []
    stats = {"worker_refusals": 0, "worker_accepts": 0, "worker_batch_joins": 0}

    def fresh():
        w = World()
        return w, w.worker(0, wn), {}

    def observe(world, wk):
        R = world.Resource
        per = []
        for n, i, _q in WORKERS[wn]:
            x = R(n, i)
            per.append((n, i, wk.resources.get_available_quantity(x),
                        wk.resources.get_allocated_quantity(x)))
        names = sorted(set(n for n, _i, _q in WORKERS[wn]))
        for n in names:
            x = R(n, "any")
            per.append((n, "any", wk.resources.get_available_quantity(x),
                        wk.resources.get_allocated_quantity(x)))
        return (tuple(per), tuple(sorted(t.name for t in wk.get_placed_tasks())),
                tuple(wk.can_accomodate_strategy(world.strats[s_])
                      for s_ in sorted(STRATS)), wk.is_full())

    def ref_fit(world, wk, ref, s_):
        dem, bs, batch = STRATS[s_]
        members = [t for t, s2 in ref.items() if s2 == s_]
        if batch and members:
            return len(members) < bs
        ok = all(wk.resources.get_available_quantity(world.Resource(n, i)) >= q
                 for (n, i), q in dem.items())
        byname = {}
        for (n, _i), q in dem.items():
            byname[n] = byname.get(n, 0) + q
        return ok and all(wk.resources.get_available_quantity(world.Resource(n, "any"))
                          >= q for n, q in byname.items())

    def apply(world, wk, ref, op, bad):
        ET, US = world.ET, world.ET.Unit.US
        before = observe(world, wk)
        if op[0] == "wplace":
            _k2, t, s_ = op
            fit = ref_fit(world, wk, ref, s_)
            exc = None
            try:
                wk.place_task(world.tasks[t], world.strats[s_])
            except Exception as e:  # noqa: B902
                exc = e
            if exc is None:
                if not fit:
                    bad("worker.accepted_unfit", f"{op}: accepted although it does not "
                                                 f"fit")
                if STRATS[s_][2] and any(s2 == s_ for s2 in ref.values()):
                    stats["worker_batch_joins"] += 1
                ref[t] = s_
                stats["worker_accepts"] += 1
            else:
                stats["worker_refusals"] += 1
                if fit:
                    bad("worker.refused_fit", f"{op}: raised {type(exc).__name__} "
                                              f"although it fits")
                if observe(world, wk) != before:
                    bad("refusal.changed_state",
                        f"{op}: refused ({type(exc).__name__}) but a public observable "
                        f"of the Worker changed")
        else:
            _k2, t = op
            try:
                wk.remove_task(ET(0, US), world.tasks[t])
            except Exception as e:  # noqa: B902
                bad("remove.raises", f"{op}: raised {type(e).__name__} for a resident "
                                     f"task")
            ref.pop(t, None)
        # ledger and predicates
        used = {}
        seen_b = set()
        for t, s_ in ref.items():
            dem, _bs, batch = STRATS[s_]
            if batch:
                if s_ in seen_b:
                    continue
                seen_b.add(s_)
            for (n, _i), q in dem.items():
                used[n] = used.get(n, 0) + q
        tot = total_by_name(wn)
        o = observe(world, wk)
        for (n, i, av, al) in o[0]:
            if i == "any":
                if av != tot[n] - used.get(n, 0):
                    bad("ledger.available", f"{wn} {n}: available {av}, reference "
                                            f"{tot[n]} - {used.get(n, 0)}")
                if av + al != tot[n]:
                    bad("ledger.sum", f"{wn} {n}: {av} + {al} != {tot[n]}")
        if o[1] != tuple(sorted(ref)):
            bad("placed.mismatch", f"get_placed_tasks {o[1]}, reference {sorted(ref)}")
        for k2, s_ in enumerate(sorted(STRATS)):
            dem, bs, batch = STRATS[s_]
            members = [t for t, s2 in ref.items() if s2 == s_]
            fit = True if (batch and members) else all(
                wk.resources.get_available_quantity(world.Resource(n, i)) >= q
                for (n, i), q in dem.items())
            if o[2][k2] != fit:
                bad("can_accomodate", f"{wn}: can_accomodate_strategy({s_})={o[2][k2]}, "
                                      f"reference {fit} (members {members})")

    def build(hist, bad=None):
        world, wk, ref = fresh()
        sink = bad or (lambda *a, **k: None)
        for op in hist:
            apply(world, wk, ref, op, sink)
        return world, wk, ref

    def enabled(ref):
        ops = []
        for t in TASK_STRATS:
            if t in ref:
                ops.append(("wremove", t))
            else:
                for s_ in TASK_STRATS[t]:
                    ops.append(("wplace", t, s_))
        return ops

    world, wk, ref = build(())
    seen = {(observe(world, wk), ())}
    frontier = [()]
    transitions = 0
    for d in range(depth):
        nxt = []
        for hist in frontier:
            _w, _k3, ref = build(hist)
            for op in enabled(ref):
                h2 = hist + (op,)

                def bad(rule, msg, h2=h2):
                    if len(out) < 25:
                        out.append({"rule": rule, "msg": f"worker {wn} history "
                                    f"{list(h2)}: {msg}",
                                    "case": {"worker_history": [list(o) for o in h2],
                                             "worker": wn}})
                w2, k2, r2 = build(hist)
                apply(w2, k2, r2, op, bad)
                transitions += 1
                # the refusal itself is part of the state: it may have left something
                # behind that only a later operation reveals, so histories ending in a
                # refusal are extended too (bounded by the depth)
                key = (observe(w2, k2), tuple(sorted(r2.items())),
                       op if observe(w2, k2) == observe(*build(hist)[:2]) else None)
                if key not in seen:
                    seen.add(key)
                    nxt.append(h2)
                    w3, k3, r3 = build(h2)
                    try:
                        for t in list(r3):
                            k3.remove_task(w3.ET(0, w3.ET.Unit.US), w3.tasks[t])
                    except Exception as e:  # noqa: B902
                        bad("drain.raises", f"removing everything raised "
                                            f"{type(e).__name__}")
                    else:
                        for n, i, q in WORKERS[wn]:
                            av = k3.resources.get_available_quantity(w3.Resource(n, i))
                            if av != q:
                                bad("drain.not_restored", f"{n}:{i}: {av} of {q} after "
                                                          f"removing everything")
        frontier = nxt
    return {"states": len(seen), "transitions": transitions, "validated": transitions,
            "evaluations": transitions, "stats": stats, "violations": out,
            "distinct": [hash(k) for k in seen],
            "samples": [{"bare_worker": wn, "depth": depth, "states": len(seen)}]}


# ----------------------------------------------------------------------- profiles
PROFILES = {
    # name: (demand, loading time)
    "P1": ({("GPU", "any"): 1}, 2),
    "P2": ({("CPU", "any"): 1}, 2),
    "P3": ({("CPU", "any"): 1}, 1),
}


def profiles_job(item, tier):
    """BFS on one bare Worker with *several* work profiles: load / evict / step(1|2) in
    every order, so that loads overlap, complete in the same step, are evicted while
    pending or at the instant they complete.  Reference: per profile (pending with
    remaining time | available | absent) and the ledger of what the resident profiles
    hold."""
    from .. import bootstrap  # noqa: F401
    from utils import EventTime
    from workers import Worker
    from workload import (ExecutionStrategies, ExecutionStrategy, Resource, Resources,
                          WorkProfile)

    depth = item[1]
    wn = "W1"
    US = EventTime.Unit.US
    out = []
    stats = {"profile_loads": 0, "profile_evictions_while_pending": 0,
             "profile_simultaneous_completions": 0, "profile_refusals": 0}

    def fresh():
        import random

        random.seed(4)
        wk = Worker(wn, Resources({Resource(n, i): q for n, i, q in WORKERS[wn]}))
        profs = {}
        for pn, (dem, rt) in PROFILES.items():
            ls = ExecutionStrategy(
                Resources({Resource(n, i): q for (n, i), q in dem.items()}), 1,
                EventTime(rt, US))
            profs[pn] = (WorkProfile(pn, ExecutionStrategies([]),
                                     ExecutionStrategies([ls])), ls)
        return wk, profs, {}

    def observe(wk, profs):
        per = []
        for n in sorted(set(n for n, _i, _q in WORKERS[wn])):
            x = Resource(n, "any")
            per.append((n, wk.resources.get_available_quantity(x),
                        wk.resources.get_allocated_quantity(x)))
        av = wk.get_available_profiles()
        pe = wk.get_pending_profiles()
        st = tuple((pn, profs[pn][0] in av, profs[pn][0] in pe,
                    wk.is_available(profs[pn][0]).time) for pn in sorted(profs))
        return (tuple(per), st)

    def apply(wk, profs, ref, op, bad):
        before = observe(wk, profs)
        if op[0] == "load":
            pn = op[1]
            dem, rt = PROFILES[pn]
            fit = all(wk.resources.get_available_quantity(Resource(n, i)) >= q
                      for (n, i), q in dem.items())
            exc = None
            try:
                wk.load_profile(profs[pn][0], profs[pn][1])
            except Exception as e:  # noqa: B902
                exc = e
            if exc is None:
                if not fit:
                    bad("load.accepted_unfit", f"{op}: accepted without room")
                ref[pn] = [rt, "pending"]
                stats["profile_loads"] += 1
            else:
                stats["profile_refusals"] += 1
                if fit:
                    bad("load.refused_fit", f"{op}: raised {type(exc).__name__} although "
                                            f"it fits")
                if observe(wk, profs) != before:
                    bad("refusal.changed_state", f"{op}: refused but observables changed")
        elif op[0] == "evict":
            pn = op[1]
            if ref[pn][1] == "pending":
                stats["profile_evictions_while_pending"] += 1
            try:
                wk.evict_profile(profs[pn][0])
            except Exception as e:  # noqa: B902
                bad("evict.raises", f"{op}: raised {type(e).__name__}")
            ref.pop(pn, None)
        else:
            dt = op[1]
            wk.step(EventTime(0, US), EventTime(dt, US))
            done = 0
            for pn, pr in ref.items():
                if pr[1] == "pending":
                    pr[0] -= dt
                    if pr[0] <= 0:
                        pr[0], pr[1] = 0, "available"
                        done += 1
            if done >= 2:
                stats["profile_simultaneous_completions"] += 1
        o = observe(wk, profs)
        used = {}
        for pn in ref:
            for (n, _i), q in PROFILES[pn][0].items():
                used[n] = used.get(n, 0) + q
        tot = total_by_name(wn)
        for n, av, al in o[0]:
            if av != tot[n] - used.get(n, 0):
                bad("ledger.available", f"{n}: available {av}, reference {tot[n]} - "
                                        f"{used.get(n, 0)} held by resident profiles "
                                        f"{sorted(ref)}")
            if av + al != tot[n]:
                bad("ledger.sum", f"{n}: {av} + {al} != {tot[n]}")
        for pn, is_av, is_pe, tm in o[1]:
            pr = ref.get(pn)
            exp = (False, False, -1) if pr is None else (
                (True, False, 0) if pr[1] == "available" else (False, True, pr[0]))
            if (is_av, is_pe, tm) != exp:
                bad("profile.state", f"{pn}: (available, pending, time)="
                                     f"{(is_av, is_pe, tm)}, reference {exp}")

    def build(hist, bad=None):
        wk, profs, ref = fresh()
        sink = bad or (lambda *a, **k: None)
        for op in hist:
            apply(wk, profs, ref, op, sink)
        return wk, profs, ref

    def enabled(ref):
        ops = []
        for pn in sorted(PROFILES):
            ops.append(("evict", pn) if pn in ref else ("load", pn))
        if any(v[1] == "pending" for v in ref.values()):
            ops += [("step", 1), ("step", 2)]
        return ops

    wk, profs, ref = build(())
    seen = {(observe(wk, profs), ())}
    frontier = [()]
    transitions = 0
    for _d in range(depth):
        nxt = []
        for hist in frontier:
            _w, _p, ref = build(hist)
            for op in enabled(ref):
                h2 = hist + (op,)

                def bad(rule, msg, h2=h2):
                    if len(out) < 25:
                        out.append({"rule": rule,
                                    "msg": f"profiles history {list(h2)}: {msg}",
                                    "case": {"profile_history": [list(o) for o in h2]}})
                w2, p2, r2 = build(hist)
                apply(w2, p2, r2, op, bad)
                transitions += 1
                key = (observe(w2, p2),
                       tuple(sorted((k, tuple(v)) for k, v in r2.items())))
                if key not in seen:
                    seen.add(key)
                    nxt.append(h2)
                    w3, p3, r3 = build(h2)
                    try:
                        for pn in list(r3):
                            w3.evict_profile(p3[pn][0])
                    except Exception as e:  # noqa: B902
                        bad("drain.raises", f"evicting everything raised "
                                            f"{type(e).__name__}")
                    else:
                        for n, i, q in WORKERS[wn]:
                            av = w3.resources.get_available_quantity(Resource(n, i))
                            if av != q:
                                bad("drain.not_restored",
                                    f"{n}:{i}: {av} of {q} after evicting everything")
        frontier = nxt
    return {"states": len(seen), "transitions": transitions, "validated": transitions,
            "evaluations": transitions, "stats": stats, "violations": out,
            "distinct": [hash(k) for k in seen],
            "samples": [{"profiles_bfs_depth": depth, "states": len(seen)}]}


# ----------------------------------------------------------------------- Resources
def resources_job(item, tier):
    """BFS on a bare Resources object: allocate / allocate_multiple / deallocate /
    copy / deepcopy with 'any' and specific ids, over-requests included."""
    from .. import bootstrap  # noqa: F401
    from copy import copy, deepcopy
    from workload import Resource, Resources

    depth = item[1]
    fixture = item[2] if len(item) > 2 else "a1b1g1"
    # a2b1g1: the first CPU id holds more than a unit request takes (surplus left on a
    # non-last id), and a 3-unit request has to span both ids
    IDS = {"a1b1g1": [("CPU", "a", 1), ("CPU", "b", 1), ("GPU", "g", 1)],
           "a2b1g1": [("CPU", "a", 2), ("CPU", "b", 1), ("GPU", "g", 1)]}[fixture]
    TOTALS = {}
    for _n, _i, _q in IDS:
        TOTALS[_n] = TOTALS.get(_n, 0) + _q
    REQS = {
        "c1": {("CPU", "any"): 1}, "c2": {("CPU", "any"): 2}, "c3": {("CPU", "any"): 3},
        "ca": {("CPU", "a"): 1}, "g1": {("GPU", "any"): 1},
        "mx": {("CPU", "any"): 1, ("GPU", "any"): 1},
        "m2": {("CPU", "any"): 2, ("GPU", "any"): 2},
        # unequal amounts of two types, in both listing orders (the request is a dict:
        # the order of its entries is an input dimension)
        "m21": {("CPU", "any"): 2, ("GPU", "any"): 1},
        "m12": {("GPU", "any"): 1, ("CPU", "any"): 2},
        # an entry of quantity zero next to a real one (legal in workload files)
        "z0": {("CPU", "any"): 1, ("GPU", "any"): 0},
        "ax": {("CPU", "a"): 1, ("GPU", "any"): 1},
        # one specific id *and* an 'any' unit of the same type in one request
        "am": {("CPU", "any"): 1, ("CPU", "a"): 1},
    }
    COMPS = ("X", "Y")
    out = []

    class Comp(object):
        def __init__(self, n):
            self.name = n

        def __repr__(self):
            return self.name

    def fresh():
        return [Resources({Resource(n, i): q for n, i, q in IDS})], \
               {c: Comp(c) for c in COMPS}, [{}]

    def obs(r):
        o = []
        for n, i, _q in IDS + [("CPU", "any", 0), ("GPU", "any", 0)]:
            x = Resource(n, i)
            o.append((n, i, r.get_available_quantity(x), r.get_allocated_quantity(x),
                      r.get_total_quantity(x)))
        return tuple(o)

    def apply(rs, comps, refs, op, bad):
        if op[0] in ("copy", "deepcopy"):
            before = obs(rs[0])
            try:
                rs.append(copy(rs[0]) if op[0] == "copy" else deepcopy(rs[0]))
            except Exception as e:  # noqa: B902
                bad("res.copy_raises", f"{op[0]} raised {type(e).__name__}: {e}")
                rs.append(deepcopy(rs[0]) if op[0] == "copy" else rs[0])
            refs.append({k: dict(v) for k, v in refs[0].items()} if op[0] == "copy"
                        else {})
            if obs(rs[0]) != before:
                bad("res.copy_changed_original", f"{op[0]} changed the original")
            if op[0] == "copy" and obs(rs[1]) != before:
                bad("res.copy_differs", "copy differs from the original")
            return
        tg = op[1]
        r, ref = rs[tg], refs[tg]
        other = [i for i in range(len(rs)) if i != tg]
        ob = {i: obs(rs[i]) for i in other}
        before = obs(r)
        if op[0] == "alloc":
            _k, _t, c, rq = op
            dem = REQS[rq]
            fit = all(r.get_available_quantity(Resource(n, i)) >= q
                      for (n, i), q in dem.items())
            byname = {}
            for (n, _i), q in dem.items():
                byname[n] = byname.get(n, 0) + q
            fit = fit and all(r.get_available_quantity(Resource(n, "any")) >= q
                              for n, q in byname.items())
            exc = None
            try:
                if len(dem) == 1:
                    (n, i), q = list(dem.items())[0]
                    r.allocate(Resource(n, i), comps[c], q)
                else:
                    r.allocate_multiple(
                        Resources({Resource(n, i): q for (n, i), q in dem.items()}),
                        comps[c])
            except ValueError as e:
                exc = e
            if exc is None:
                if not fit:
                    bad("res.accepted_unfit", f"{op}: accepted above availability")
                ref.setdefault(c, {})
                for (n, _i), q in dem.items():
                    if q:  # a zero-quantity entry takes nothing and leaves no record
                        ref[c][n] = ref[c].get(n, 0) + q
            else:
                if fit:
                    bad("res.refused_fit", f"{op}: refused although available")
                if obs(r) != before:
                    bad("res.refusal_changed_state", f"{op}: refused but getters "
                                                     f"changed")
        elif op[0] == "dealloc":
            _k, _t, c = op
            try:
                r.deallocate(comps[c])
            except Exception as e:  # noqa: B902
                bad("res.dealloc_raises", f"{op}: {e!r}")
            ref.pop(c, None)
        for i in other:
            if obs(rs[i]) != ob[i]:
                bad("res.copy_not_independent", f"{op} changed object {i}")
        # ledger
        for tgi, (rr, rf) in enumerate(zip(rs, refs)):
            held = {}
            for c, d in rf.items():
                for n, q in d.items():
                    held[n] = held.get(n, 0) + q
            for n, tot in sorted(TOTALS.items()):
                av = rr.get_available_quantity(Resource(n, "any"))
                if av != tot - held.get(n, 0):
                    bad("res.ledger", f"object {tgi} {n}: available {av}, reference "
                                      f"{tot - held.get(n, 0)}")
            for c, d in rf.items():
                got = {}
                for x, q in rr.get_allocated_resources(comps[c]):
                    got[x.name] = got.get(x.name, 0) + q
                if got != d:
                    bad("res.record", f"object {tgi}: record of {c} {got} != {d}")

    def build(hist, bad=None):
        rs, comps, refs = fresh()
        sink = bad or (lambda *a, **k: None)
        for op in hist:
            apply(rs, comps, refs, op, sink)
        return rs, comps, refs

    def enabled(rs, refs):
        ops = []
        for tg in range(len(rs)):
            for c in COMPS:
                if c in refs[tg]:
                    ops.append(("dealloc", tg, c))
                for rq in REQS:
                    ops.append(("alloc", tg, c, rq))
        if len(rs) == 1:
            ops += [("copy",), ("deepcopy",)]
        return ops

    seen = set()
    frontier = [()]
    rs, comps, refs = build(())
    seen.add((tuple(obs(r) for r in rs), ()))
    transitions = 0
    stats = {"res_refusals": 0}
    for d in range(depth):
        nxt = []
        for hist in frontier:
            rs, comps, refs = build(hist)
            for op in enabled(rs, refs):
                h2 = hist + (op,)

                def bad(rule, msg, h2=h2):
                    mixed = any(o[0] == "alloc" and o[3] == "am" for o in h2)
                    if len(out) < 25 or (not mixed and len(out) < 40):
                        out.append({"rule": rule, "msg": f"history {list(h2)}: {msg}",
                                    "mixed_any_and_id_request": mixed,
                                    "case": {"res_history": [list(o) for o in h2],
                                             "fixture": fixture}})
                r2, c2, f2 = build(hist)
                b = obs(r2[op[1]]) if len(op) > 1 else None
                apply(r2, c2, f2, op, bad)
                transitions += 1
                if op[0] == "alloc" and obs(r2[op[1]]) == b:
                    stats["res_refusals"] += 1
                key = (tuple(obs(r) for r in r2),
                       tuple(tuple(sorted((c, tuple(sorted(v.items())))
                                          for c, v in f.items())) for f in f2))
                if key not in seen:
                    seen.add(key)
                    nxt.append(h2)
                    # drain: deallocate everything restores totals
                    r3, c3, f3 = build(h2)
                    for tgi, f in enumerate(f3):
                        for c in list(f):
                            r3[tgi].deallocate(c3[c])
                        for n, i, q in IDS:
                            if r3[tgi].get_available_quantity(Resource(n, i)) != q:
                                bad("res.drain", f"object {tgi} {n}:{i} not restored")
        frontier = nxt
    return {"states": len(seen), "transitions": transitions, "validated": transitions,
            "evaluations": transitions, "stats": stats, "violations": out,
            "distinct": [hash(k) for k in seen],
            "samples": [{"resources_bfs_depth": depth, "fixture": fixture,
                         "states": len(seen)}]}


def job(item, tier):
    if item[0] == "bfs":
        return bfs_job(item, tier)
    if item[0] == "resources":
        return resources_job(item, tier)
    if item[0] == "worker":
        return worker_job(item, tier)
    if item[0] == "profiles":
        return profiles_job(item, tier)
    if item[0] == "case":
        return case_job(item[1], tier)


def case_job(case, tier):
    from .. import bootstrap  # noqa: F401

    out = []
    if "history" in case:
        hist = tuple(tuple(o) for o in case["history"])

        def bad(rule, msg, **kw):
            out.append({"rule": rule, "msg": f"history {list(hist)}: {msg}",
                        "case": case})
        w, r = build(hist[:-1])
        apply_op(w, r, hist[-1], bad)
        for tg in range(len(w.pools)):
            check_against_reference(w, tg, r[tg], bad, hist)
        drain_check(hist, bad)
    elif "profile_history" in case:
        r = profiles_job(("profiles", len(case["profile_history"])), tier)
        out = r["violations"]
    elif "worker_history" in case:
        r = worker_job(("worker", case["worker"], len(case["worker_history"])), tier)
        out = r["violations"]
    elif "res_history" in case:
        r = resources_job(("resources", len(case["res_history"]),
                           case.get("fixture", "a1b1g1")), tier)
        out = r["violations"]
    return {"violations": out}


def confirm_job(case, tier):
    return case_job(case, tier)


def first_ops(alphabet):
    from .. import bootstrap  # noqa: F401

    world, refs = build(())
    return enabled_ops(world, refs, alphabet)


def items(tier):
    full_depth = 4 if tier == "quick" else 5
    batch_depth = 6 if tier == "quick" else 8
    it = []
    # partition on the first operation (computed without touching the repo: static)
    firsts = []
    for t in TASK_STRATS:
        for s in TASK_STRATS[t]:
            for wn in (None, "W1", "W2"):
                firsts.append(("place", 0, t, s, wn))
    for wn in WORKERS:
        firsts.append(("load", 0, wn))
    firsts += [("copy",), ("deepcopy",)]
    for f in firsts:
        it.append(("bfs", "full", [list(f)], full_depth))
    bf = []
    for t in TASK_STRATS:
        for s in TASK_STRATS[t]:
            if STRATS[s][2]:
                for wn in (None, "W1"):
                    bf.append(("place", 0, t, s, wn))
    bf += [("copy",), ("deepcopy",)]
    for f in bf:
        it.append(("bfs", "batch", [list(f)], batch_depth))
    for wn in WORKERS:
        it.append(("worker", wn, 4 if tier == "quick" else 5))
    it.append(("profiles", 6 if tier == "quick" else 8))
    it.append(("resources", 4 if tier == "quick" else 5, "a1b1g1"))
    it.append(("resources", 4 if tier == "quick" else 5, "a2b1g1"))
    return it


def main(tier, seed):
    run_generic(
        "C04", tier, seed, items(tier), job, extra=(tier,), engine="e2",
        rule="BFS over all operation histories (place / place-in-batch / remove / load / "
             "evict / step / copy / deepcopy on a 2-worker pool with several ids of one "
             "type; place / remove on a bare Worker without the pool's admission test; "
             "load / evict / step over three work profiles on a bare Worker; "
             "allocate / allocate_multiple / deallocate / copy on bare Resources) "
             "to the stated depth, partitioned on the first operation; states "
             "de-duplicated on all public getter values",
        assumptions=["an `any` request may be served from any id: comparison is on "
                     "observables (getters), fit is judged on the observable per-id "
                     "availabilities",
                     "full alphabet depth %d, batch-only alphabet depth %d" %
                     ((4, 6) if tier == "quick" else (5, 8))],
        required_stats=("refusals", "accepted_places", "copies", "batch_places",
                        "res_refusals", "worker_refusals", "worker_accepts",
                        "worker_batch_joins", "profile_loads",
                        "profile_evictions_while_pending",
                        "profile_simultaneous_completions"), chunk=1,
        budget_s=280 if tier == "quick" else 900, confirm_job=confirm_job)


def replay(path):
    return generic_replay("C04", path, confirm_job, extra=("quick",), item_job=job)
