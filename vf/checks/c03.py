"""C03 -- decided by engine E1 (see DESIGN.md section 5, C03)."""
from . import _e1props


def main(tier, seed):
    _e1props.main("C03", tier, seed)


def replay(path):
    return _e1props.replay("C03", path)
