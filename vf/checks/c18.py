"""C18 -- the scheduling frontier (engines E2 + E1).

E2: breadth-first search over the task-state combinations of small graphs that real
transitions (release / schedule / unschedule / start / finish+notify / cancel / tick)
can reach; in every state get_schedulable_tasks is evaluated for every combination of
lookahead x retract x release_taskgraphs x branch policy and judged by the frontier
rules, including monotonicity across options under identical random answers.
E1: the run monitor's offer / release-on-completion rules on whole simulations."""
import itertools

from ..checklib import run_generic, generic_replay

GRAPHS = {
    # name: list of (node, children, kwargs)
    "chain3": [("A", ["B"], {}), ("B", ["C"], {}), ("C", [], {})],
    "fork": [("A", ["B", "C"], {}), ("B", [], {}), ("C", [], {})],
    "join": [("A", ["C"], {}), ("B", ["C"], {}), ("C", [], {})],
    "diamond": [("A", ["B", "C"], {}), ("B", ["D"], {}), ("C", ["D"], {}),
                ("D", [], {})],
    # a join whose parents sit at different depths, with a tail: estimates for the tail
    # depend on the *later* of the two routes into the join
    "skewjoin": [("A", ["C"], {}), ("P", ["B"], {}), ("B", ["C"], {}), ("C", ["G"], {}),
                 ("G", [], {})],
    "cond": [("Q", ["X", "Y"], {"conditional": True}),
             ("X", ["J"], {"probability": 0.25}), ("Y", ["J"], {"probability": 0.75}),
             ("J", ["K"], {"terminal": True}), ("K", [], {})],
}
RUNTIME = {"A": 2, "B": 1, "C": 2, "D": 1, "Q": 1, "X": 2, "Y": 1, "J": 1, "K": 2,
           "P": 4, "G": 1}
LOOKAHEADS = (0, 1, 3, 50)
MAX_TIME = 4


class G(object):
    """Fresh real TaskGraph + bookkeeping for one replay."""

    def __init__(self, gname):
        import random

        from utils import EventTime
        from workload import (ExecutionStrategies, ExecutionStrategy, Job, JobGraph,
                              Resource, Resources, WorkProfile)

        random.seed(7)
        self.ET = EventTime
        self.US = EventTime.Unit.US
        jobs = {}
        for n, _ch, kw in GRAPHS[gname]:
            es = ExecutionStrategies([ExecutionStrategy(
                Resources({Resource("CPU", "any"): 1}), 1,
                EventTime(RUNTIME[n], self.US))])
            jobs[n] = Job(name=n, profile=WorkProfile("p" + n, es), **kw)
        jg = JobGraph(name="G", release_policy=JobGraph.ReleasePolicy.fixed(
            EventTime(1, self.US), 1), deadline_variance=(100, 100))
        for n, _ch, _kw in GRAPHS[gname]:
            jg.add_job(jobs[n])
        for n, ch, _kw in GRAPHS[gname]:
            for c in ch:
                jg.add_child(jobs[n], jobs[c])
        self.tg = list(jg.generate_task_graphs(EventTime(100, self.US)).values())[0]
        self.t = {x.name: x for x in self.tg.get_nodes()}
        self.now = 0
        self.gname = gname
        self.parents = {n: [p for p, ch, _ in GRAPHS[gname] if n in ch]
                        for n, _c, _k in GRAPHS[gname]}
        self.children = {n: ch for n, ch, _ in GRAPHS[gname]}
        self.kw = {n: kw for n, _c, kw in GRAPHS[gname]}
        self.notified = set()  # tasks returned by notify_task_completion (releasable)
        self.taken = {}
        # True while every schedule op so far is one a policy that does not plan ahead
        # could have made: a RELEASED task placed for now
        self.greedy_only = True

    def time(self, t=None):
        return self.ET(self.now if t is None else t, self.US)


def enabled(g):
    from workload import TaskState as TS

    ops = []
    for n, t in g.t.items():
        st = t.state
        par = g.parents[n]
        term = g.kw[n].get("terminal")
        pdone = [g.t[p].is_complete() for p in par]
        ready = (any(pdone) if term else all(pdone)) if par else True
        if st in (TS.VIRTUAL, TS.SCHEDULED) and not getattr(t, "_vf_rel", False):
            if (not par and g.now >= 0) or n in g.notified:
                ops.append(("rel", n))
        if st in (TS.VIRTUAL, TS.RELEASED):
            ops.append(("sched", n, 0))
            ops.append(("sched", n, 2))
            ops.append(("cancel", n))
        if st == TS.SCHEDULED:
            ops.append(("unsched", n))
            if ready and getattr(t, "_vf_rel", False):
                ops.append(("start", n))
        if st == TS.RUNNING:
            if g.kw[n].get("conditional"):
                for k in range(len(g.children[n])):
                    ops.append(("fin", n, k))
            else:
                ops.append(("fin", n, 0))
    # time may only pass when nothing is due now: a task returned by
    # notify_task_completion is released at that very instant by the simulator, and a
    # SCHEDULED task whose time has come and whose inputs are there is started
    # (deferrals for lack of resources are not modelled here)
    due = False
    for n, t in g.t.items():
        if n in g.notified and not getattr(t, "_vf_rel", False) and \
                t.state != TS.CANCELLED:
            due = True
        if not g.parents[n] and not getattr(t, "_vf_rel", False) and \
                t.state in (TS.VIRTUAL, TS.SCHEDULED):
            due = True  # sources are released at time 0
        if t.state == TS.SCHEDULED and getattr(t, "_vf_rel", False) and \
                t._scheduler_placement.placement_time.time <= g.now:
            par = g.parents[n]
            pdone = [g.t[p].is_complete() for p in par]
            ready = ((any(pdone) if g.kw[n].get("terminal") else all(pdone))
                     if par else True)
            if ready:
                due = True
    if due:
        ops = [o for o in ops if o[0] not in ("fin",)]
    elif g.now < MAX_TIME:
        ops.append(("tick",))
    return ops


def apply(g, op, bad=None):
    from workload import Placement
    from ..tape import Tape, TapeRandomModule
    import workload.tasks as wt
    from .. import bootstrap as B

    k = op[0]
    if k == "tick":
        g.now += 1
        return
    n = op[1]
    t = g.t[n]
    if k == "rel":
        t.release(g.time())
        t._vf_rel = True
    elif k == "sched":
        from workload import TaskState as _TS

        if t.state != _TS.RELEASED or op[2] != 0:
            g.greedy_only = False
        pl = Placement.create_task_placement(
            t, placement_time=g.time(g.now + op[2]), worker_pool_id="wp",
            execution_strategy=t.available_execution_strategies[0])
        t.schedule(g.time(), pl)
    elif k == "unsched":
        t.unschedule(g.time())
    elif k == "start":
        t.start(g.time())
    elif k == "cancel":
        g.tg.cancel(t, g.time())
    elif k == "preempt":
        # RUNNING -> PREEMPTED (not produced by `enabled`: the pause is a one-step
        # extension of every BFS state, see bfs_job)
        t.preempt(g.time())
    elif k == "evict":
        # RUNNING -> EVICTED: the worker gives the task up with work left
        t.finish(g.time())
    elif k == "fin":
        rem = t.remaining_time
        t.step(g.time(), rem)
        g.now += rem.time
        t.finish()
        tape = Tape([op[2]])
        saved = wt.random
        wt.random = TapeRandomModule(B.REAL_RANDOM, tape)
        try:
            released, cancelled = g.tg.notify_task_completion(t, g.time())
        finally:
            wt.random = saved
        # reference for release-on-completion
        exp = []
        if g.kw[n].get("conditional"):
            from workload import TaskState as TS0

            ch = [c for c in g.children[n]]
            positive = [c for c in ch if g.kw[c].get("probability", 1.0) > 0
                        and g.t[c].state != TS0.CANCELLED]
            exp = [positive[op[2] % len(positive)]] if positive else []
        else:
            for c in g.children[n]:
                from workload import TaskState as TS

                if g.t[c].state == TS.CANCELLED:
                    continue
                if g.kw[c].get("terminal") or all(g.t[p].is_complete()
                                                  for p in g.parents[c]):
                    exp.append(c)
        got = [x.name for x in released]
        if bad is not None and sorted(got) != sorted(exp):
            bad("release_on_completion",
                f"completion of {n} released {sorted(got)}, expected {sorted(exp)}")
        for x in released:
            g.notified.add(x.name)


def build(gname, hist, bad=None):
    g = G(gname)
    for op in hist:
        apply(g, tuple(op), bad)
    return g


def canon(g):
    out = [g.now]
    for n in sorted(g.t):
        t = g.t[n]
        out.append((n, t.state.value, t.release_time.time,
                    t._scheduler_placement.placement_time.time
                    if t._scheduler_placement is not None else None,
                    t._remaining_time.time if t._remaining_time is not None else None,
                    t.completion_time.time, round(t.probability, 3),
                    getattr(t, "_vf_rel", False), n in g.notified))
    out.append(g.greedy_only)
    return tuple(out)


def query_all(g, bad, stats):
    """Evaluate the frontier for every option combination and judge it."""
    from workload import BranchPredictionPolicy as BP, TaskState as TS
    from ..tape import Tape, TapeRandomModule
    import workload.tasks as wt
    from .. import bootstrap as B

    pols = [BP.ALL, BP.WORST_CASE, BP.BEST_CASE, BP.MAXIMUM, BP.RANDOM]
    res = {}
    for pol in pols:
        answers = ((0,), (1,)) if pol == BP.RANDOM else ((0,),)
        for ans in answers:
            for retract in (False, True):
                for rtg in (False, True):
                    for la in LOOKAHEADS:
                        tape = Tape(list(ans) * 40)
                        saved = wt.random
                        wt.random = TapeRandomModule(B.REAL_RANDOM, tape)
                        try:
                            off = g.tg.get_schedulable_tasks(
                                g.time(), g.ET(la, g.US), False, retract, None, pol,
                                0.5, rtg)
                        finally:
                            wt.random = saved
                        names = [t.name for t in off]
                        key = (pol.name, ans, retract, rtg, la)
                        res[key] = names
                        stats["queries"] += 1
                        if len(set(names)) != len(names):
                            bad("offer.duplicate", f"{key}: {names}")
                        for n in names:
                            st = g.t[n].state
                            if st in (TS.COMPLETED, TS.CANCELLED):
                                bad("offer.finished_task", f"{key}: offers {n} in "
                                                           f"state {st.name}")
                            if st == TS.SCHEDULED and not retract:
                                bad("offer.scheduled_without_retract",
                                    f"{key}: offers SCHEDULED {n}")
                            if st == TS.RUNNING:
                                bad("offer.running_without_preempt",
                                    f"{key}: offers RUNNING {n}")
                        for n, t in g.t.items():
                            if t.state == TS.RELEASED and t.release_time.time <= g.now \
                                    and n not in names:
                                bad("offer.starved", f"{key}: RELEASED {n} (release "
                                                     f"{t.release_time.time}) missing "
                                                     f"at {g.now}")
                        for n, t in g.t.items():
                            if t.state in (TS.PREEMPTED, TS.EVICTED) and n not in names:
                                bad("offer.paused_starved",
                                    f"{key}: {t.state.name} {n} (released at "
                                    f"{t.release_time.time}, work left) missing at "
                                    f"{g.now}")
                        if la == 0 and not rtg and pol == BP.ALL and not retract \
                                and g.greedy_only:
                            for n in names:
                                par = g.parents[n]
                                if not par:
                                    continue
                                done = [g.t[p].is_complete() for p in par]
                                ok = any(done) if g.kw[n].get("terminal") else all(done)
                                if not ok:
                                    bad("offer.premature",
                                        f"{key}: offers {n} whose predecessors "
                                        f"{[p for p, d in zip(par, done) if not d]} have "
                                        f"not completed (lookahead 0)")
    # monotonicity
    for (pol, ans, retract, rtg, la), names in res.items():
        for la2 in LOOKAHEADS:
            if la2 > la:
                bigger = res[(pol, ans, retract, rtg, la2)]
                if not set(names) <= set(bigger):
                    bad("offer.lookahead_not_monotone",
                        f"{pol}/{ans} retract={retract} rtg={rtg}: lookahead {la} offers "
                        f"{names}, lookahead {la2} only {bigger}")
        if not rtg:
            bigger = res[(pol, ans, retract, True, la)]
            if not set(names) <= set(bigger):
                bad("offer.release_taskgraphs_not_monotone",
                    f"{pol}/{ans} retract={retract} la={la}: offers {names} without "
                    f"release_taskgraphs, only {bigger} with it")
    if any(len(v) for v in res.values()):
        stats["states_with_offers"] += 1
    virt = False
    from workload import TaskState as TS2

    for names in res.values():
        if any(g.t[n].state == TS2.VIRTUAL for n in names):
            virt = True
    if virt:
        stats["states_offering_virtual"] += 1


def paused_extension(gname, hist, g, mkbad, stats):
    """One step beyond every BFS state: each RUNNING task is preempted, or evicted with
    work left, and the frontier of that state is judged as well (a paused task is a
    released task whose time has come: it must be offered under every option).  The
    paused states are not searched further."""
    from workload import TaskState as TS

    for n in sorted(g.t):
        if g.t[n].state != TS.RUNNING:
            continue
        for kind in ("preempt", "evict"):
            h3 = tuple(hist) + ((kind, n),)
            try:
                g3 = build(gname, h3)
            except Exception:  # noqa: B902
                stats["ops_refused_by_object"] += 1
                continue
            if g3.t[n].state not in (TS.PREEMPTED, TS.EVICTED):
                continue  # nothing left to run: the object completed the task instead
            stats["paused_states"] = stats.get("paused_states", 0) + 1
            query_all(g3, mkbad(h3), stats)


def bfs_job(item, tier):
    from .. import bootstrap  # noqa: F401

    _k, gname, prefix, depth, cap = item[:5]
    shard_k, shard_m = (item[5], item[6]) if len(item) > 5 else (0, 1)
    prefix = tuple(tuple(o) for o in prefix)
    out = []
    stats = {"queries": 0, "states_with_offers": 0, "states_offering_virtual": 0,
             "state_cap_hit": 0, "ops_refused_by_object": 0, "paused_states": 0}

    def mkbad(hist):
        def bad(rule, msg):
            if len(out) < 20:
                out.append({"rule": rule,
                            "msg": f"{gname} history {list(hist)}: {msg}",
                            "case": {"graph": gname, "history": [list(o) for o in hist]}})
        return bad

    g = build(gname, prefix)
    seen = {canon(g)}
    query_all(g, mkbad(prefix), stats)
    paused_extension(gname, prefix, g, mkbad, stats)
    frontier = [prefix]
    transitions = 0
    for d in range(len(prefix), depth):
        nxt = []
        for hist in frontier:
            g = build(gname, hist)
            for oi, op in enumerate(enabled(g)):
                if d == len(prefix) and oi % shard_m != shard_k:
                    continue  # another work item explores this successor's subtree
                h2 = hist + (op,)
                bad = mkbad(h2)
                try:
                    g2 = build(gname, hist)
                    apply(g2, op, bad)
                except Exception:  # noqa: B902
                    # the real object refuses this step in this state (e.g. completing
                    # a conditional one of whose children was cancelled individually);
                    # the state is not reachable through it -- counted, not judged
                    stats["ops_refused_by_object"] += 1
                    continue
                transitions += 1
                c = canon(g2)
                if c in seen:
                    continue
                if len(seen) >= cap:
                    stats["state_cap_hit"] = 1
                    continue
                seen.add(c)
                nxt.append(h2)
                query_all(g2, bad, stats)
                paused_extension(gname, h2, g2, mkbad, stats)
        frontier = nxt
        if not frontier:
            break
    return {"states": len(seen), "transitions": transitions,
            "validated": stats["queries"], "evaluations": stats["queries"],
            "stats": stats, "violations": out, "distinct": [hash(c) for c in seen],
            "samples": [{"graph": gname, "prefix": [list(o) for o in prefix],
                         "depth": depth, "states": len(seen)}]}


def case_job(case, tier):
    from .. import bootstrap  # noqa: F401

    out = []
    stats = {"queries": 0, "states_with_offers": 0, "states_offering_virtual": 0}
    hist = tuple(tuple(o) for o in case["history"])

    def bad(rule, msg):
        out.append({"rule": rule, "msg": f"{case['graph']} history {list(hist)}: {msg}",
                    "case": case})
    g = build(case["graph"], hist, bad)
    query_all(g, bad, stats)
    return {"violations": out}


def job(item, tier):
    if item[0] == "bfs":
        return bfs_job(item, tier)
    return case_job(item[1], tier)


def confirm_job(case, tier):
    return case_job(case, tier)


def items(tier):
    # quick: exhaustive to depth 6 (no state cap is reached); thorough: depth 8
    # exhaustive for the small graphs, capped (and reported) for the large ones
    depth = 6 if tier == "quick" else 8
    cap = 60000 if tier == "quick" else 150000
    it = []
    for gname, nodes in GRAPHS.items():
        srcs = [n for n, _c, _k in nodes
                if not any(n in ch for _p, ch, _kk in nodes)]
        firsts = []
        for s in srcs:
            firsts += [("rel", s), ("sched", s, 0), ("sched", s, 2), ("cancel", s)]
        firsts.append(("tick",))
        shards = 4 if len(nodes) >= 4 else 1
        gdepth = depth if len(nodes) <= 4 else depth - 1  # 5-node graphs: one less
        for f in firsts:
            # second-level split on the follow-up op keeps the items even
            for k in range(shards):
                it.append(("bfs", gname, [list(f)], gdepth, cap, k, shards))
        # start from a non-initial state too: every source released, placed for now
        # and running (what a greedy run looks like after its first invocation); the
        # search continues from there to the same relative depth
        pre = [["rel", s_] for s_ in srcs] + [["sched", s_, 0] for s_ in srcs] + \
              [["start", s_] for s_ in srcs]
        for k in range(shards):
            it.append(("bfs", gname, pre, len(pre) + depth - 2, cap, k, shards))
    return it


def main(tier, seed):
    from . import _e1props
    from ..checklib import combine_and_finish

    e2 = run_generic(
        "C18", tier, seed, items(tier), job, extra=(tier,), engine="e2", finish=False,
        rule="BFS over task-state combinations of 6 graphs (chain, fork, join, diamond, "
             "skewed join with a tail, conditional+join) reached by real transitions "
             "from the initial state and from the state 'all sources running', time "
             "0..4+runtimes; in each "
             "state 5 branch policies (RANDOM under both answers) x retract x "
             "release_taskgraphs x lookahead {0,1,3,50} = 96 frontier queries judged; "
             "every state with a RUNNING task is also extended by one step to the "
             "states in which that task is PREEMPTED or EVICTED with work left, and "
             "judged there",
        assumptions=["preemption offers are judged in E1 runs only (they need a live "
                     "cluster)", "states de-duplicated on (time, per-task state/times/"
                     "probability) within a work item; depth %d from the initial state "
                     "(one less for the two 5-node graphs), "
                     "%d operations beyond 'all sources running'; a per-item state cap "
                     "hit is counted in outcome_classes and clears `exhaustive`"
                     % ((6, 4) if tier == "quick" else (8, 6)),
                     "the run-level clauses (no premature offer to greedy policies, "
                     "release on completion) are also enforced by the E1 monitor in "
                     "every C02/C05/C06 world"],
        required_stats=("queries", "states_with_offers", "states_offering_virtual",
                        "paused_states"),
        chunk=1, budget_s=200 if tier == "quick" else 900, confirm_job=confirm_job)
    e1 = _e1props.main("C18", tier, seed, finish=False)
    combine_and_finish("C18", tier, seed, [("E2-frontier", e2), ("E1-runs", e1)])


def replay(path):
    import json

    with open(path) as f:
        d = json.load(f)
    if d.get("engine") == "e1":
        return _replay_e1(path)
    return generic_replay("C18", path, confirm_job, extra=("quick",), item_job=job)


def _replay_e1(path):
    from . import _e1props

    return _e1props.replay("C18", path)
