"""C20 -- STRL compilation: every model solution is a valid space-time allocation
(engine E5).

The real C++ back-end (Expression / CapacityConstraint / SolverModel /
OptimizationPasses, built from /repo with a sequential TBB shim and no solver library)
compiles every tree of a small grammar; the dumped integer model is solved
*exhaustively* in Python (all assignments of the decision variables, one witness for
the auxiliary time variables); every solution is stored into the real model and read
back by the real populateResults(); the placements are judged against an independent
reference semantics, and the best objective is compared with the brute-force optimum
of the expression."""
import itertools

from ..checklib import run_generic, generic_replay

NOW = 3
PARTS = {1: 2, 2: 1}


# ------------------------------------------------------------------ tree grammar
def choose(name, parts=(1,), n=1, start=3, dur=2, u=1):
    return {"kind": "choose", "name": name, "parts": list(parts), "n": n,
            "start": start, "dur": dur, "u": u}


def windowed(name, parts=(1,), n=1, start=3, dur=2, end=5, gran=1, u=1):
    return {"kind": "windowed", "name": name, "parts": list(parts), "n": n,
            "start": start, "dur": dur, "end": end, "gran": gran, "u": u}


def malleable(name, parts=(1,), slots=2, start=3, end=5, gran=1, u=1):
    return {"kind": "malleable", "name": name, "parts": list(parts), "slots": slots,
            "start": start, "end": end, "gran": gran, "u": u}


def allocation(name, alloc, start=3, dur=2):
    return {"kind": "allocation", "name": name, "alloc": dict(alloc), "start": start,
            "dur": dur}


def op(kind, name, children, **kw):
    d = {"kind": kind, "name": name, "children": list(children)}
    d.update(kw)
    return d


def leaf_menu(tier, gran):
    L = []
    for start in (2, 3, 4, 5):
        for dur in (1, 2):
            for n_ in (1, 2):
                L.append(("c", dict(n=n_, start=start, dur=dur, parts=(1,))))
    L.append(("c", dict(n=2, start=3, dur=2, parts=(1, 2))))
    L.append(("c", dict(n=1, start=4, dur=3, parts=(2,))))
    L.append(("c", dict(n=3, start=3, dur=1, parts=(1, 2))))
    L.append(("w", dict(n=1, start=3, dur=2, end=5, parts=(1,))))
    L.append(("w", dict(n=2, start=3, dur=1, end=4, parts=(1, 2))))
    L.append(("a", dict(alloc={1: 1}, start=3, dur=2)))
    L.append(("a", dict(alloc={1: 2}, start=4, dur=1)))
    # MalleableChoose leaves are NOT part of either tier: the first complete thorough run
    # with them produced violations (ordering, optimum, capacity) that could not be
    # triaged -- the reference semantics used here for malleable leaves has not been
    # validated -- so nothing is claimed about them (DESIGN.md 10.6)
    return L


def mk_leaf(spec, name, u=1, gran=1):
    k, kw = spec
    if k == "c":
        return choose(name, u=u, **kw)
    if k == "w":
        return windowed(name, u=u, gran=gran, **kw)
    if k == "m":
        return malleable(name, u=u, gran=gran, **kw)
    return allocation(name, **kw)


def trees(tier, seed):
    """Every tree of the grammar (shapes x leaf menu x passes x granularity)."""
    th = tier == "thorough"
    grans = (1, 2, 3) if th else (1, 2)
    # third flag: the dynamic (range-based) discretisation pass
    # critical-path + dynamic discretisation together: thorough tier only (open finding
    # strl-dynamic-pass-after-inverted-bounds, attributed through the back-end's own time
    # bounds, see job())
    pass_sets = [(0, 0, 0), (1, 0, 0), (0, 1, 0), (1, 1, 0), (0, 0, 1)]
    if th:
        pass_sets += [(1, 1, 1), (1, 0, 1)]
    for gran in grans:
        menu = leaf_menu(tier, gran)
        maxable = [m for m in menu if m[0] in ("c", "w")]
        small = menu[::3]
        # the reduced menu must keep one leaf of every kind (constant-time Choose,
        # variable-time WindowedChoose, Allocation)
        for kind_ in ("w", "a"):
            if not any(m[0] == kind_ for m in small):
                small = small + [next(m for m in menu if m[0] == kind_)]
        for passes in pass_sets:
            if gran > 1 and passes not in ((0, 0, 0), (1, 1, 0)) and not th:
                continue

            def T(nodes, root=0, tag=""):
                return {"now": NOW, "granularity": gran, "partitions": dict(PARTS),
                        "passes": passes, "nodes": nodes, "root": root,
                        "tag": f"g{gran}/p{''.join(map(str, passes))}/{tag}"}

            # Objective(leaf) and Objective(leaf, leaf)
            for i, a in enumerate(menu):
                yield T([op("objective", "obj", [1]), mk_leaf(a, "A", 2, gran)],
                        tag=f"obj1/{i}")
            for (i, a), (j, b) in itertools.product(enumerate(menu), repeat=2):
                if passes != (0, 0, 0) and (i % 3 or j % 3):
                    continue
                yield T([op("objective", "obj", [1, 2]), mk_leaf(a, "A", 1, gran),
                         mk_leaf(b, "B", 2, gran)], tag=f"obj2/{i},{j}")
            # Max over two alternatives of one task; Min / LessThan over two leaves
            for (i, a), (j, b) in itertools.product(enumerate(maxable), repeat=2):
                if passes != (0, 0, 0) and (i % 3 or j % 3):
                    continue
                yield T([op("objective", "obj", [1]), op("max", "mx", [2, 3]),
                         mk_leaf(a, "Aa", 1, gran), mk_leaf(b, "Ab", 2, gran)],
                        tag=f"max/{i},{j}")
            for (i, a), (j, b) in itertools.product(enumerate(menu), repeat=2):
                if passes != (0, 0, 0) and (i % 3 or j % 3):
                    continue
                yield T([op("objective", "obj", [1]), op("min", "mn", [2, 3]),
                         mk_leaf(a, "A", 1, gran), mk_leaf(b, "B", 1, gran)],
                        tag=f"min/{i},{j}")
                yield T([op("objective", "obj", [1]), op("lessthan", "lt", [2, 3]),
                         mk_leaf(a, "A", 1, gran), mk_leaf(b, "B", 1, gran)],
                        tag=f"lt/{i},{j}")
            # three leaves: Scale, Max + competitor, LessThan over a Max, shared leaf
            for (i, a), (j, b), (k, c) in itertools.product(enumerate(small), repeat=3):
                if passes != (0, 0, 0) and (i + j + k) % 2:
                    continue
                yield T([op("objective", "obj", [1, 3]), op("scale", "sc", [2], factor=3),
                         mk_leaf(a, "A", 1, gran), op("min", "mn", [4, 5]),
                         mk_leaf(b, "B", 1, gran), mk_leaf(c, "C", 1, gran)],
                        tag=f"scale+min/{i},{j},{k}")
                if a[0] in ("c", "w") and b[0] in ("c", "w"):
                    yield T([op("objective", "obj", [1, 4]), op("max", "mx", [2, 3]),
                             mk_leaf(a, "Aa", 2, gran), mk_leaf(b, "Ab", 1, gran),
                             mk_leaf(c, "C", 2, gran)], tag=f"max+leaf/{i},{j},{k}")
                    yield T([op("objective", "obj", [1]), op("lessthan", "lt", [2, 5]),
                             op("max", "mx", [3, 4]), mk_leaf(a, "Aa", 1, gran),
                             mk_leaf(b, "Ab", 1, gran), mk_leaf(c, "C", 1, gran)],
                            tag=f"lt(max,leaf)/{i},{j},{k}")
                # LessThan with a Min on either side: the shape the Python front-end
                # emits for a task with two children (parent before both children)
                yield T([op("objective", "obj", [1]), op("lessthan", "lt", [2, 3]),
                         mk_leaf(a, "A", 1, gran), op("min", "mn", [4, 5]),
                         mk_leaf(b, "B", 1, gran), mk_leaf(c, "C", 1, gran)],
                        tag=f"lt(leaf,min)/{i},{j},{k}")
                yield T([op("objective", "obj", [1]), op("lessthan", "lt", [2, 5]),
                         op("min", "mn", [3, 4]), mk_leaf(a, "A", 1, gran),
                         mk_leaf(b, "B", 1, gran), mk_leaf(c, "C", 1, gran)],
                        tag=f"lt(min,leaf)/{i},{j},{k}")
                # nested LessThan on either side (a chain of three): the inner one's
                # start/end are what the outer one orders
                yield T([op("objective", "obj", [1]), op("lessthan", "lt", [2, 5]),
                         op("lessthan", "li", [3, 4]), mk_leaf(a, "A", 1, gran),
                         mk_leaf(b, "B", 1, gran), mk_leaf(c, "C", 1, gran)],
                        tag=f"lt(lt,leaf)/{i},{j},{k}")
                yield T([op("objective", "obj", [1]), op("lessthan", "lt", [2, 3]),
                         mk_leaf(a, "A", 1, gran), op("lessthan", "li", [4, 5]),
                         mk_leaf(b, "B", 1, gran), mk_leaf(c, "C", 1, gran)],
                        tag=f"lt(leaf,lt)/{i},{j},{k}")
                # a leaf shared by two Min parents (STRL DAG)
                yield T([op("objective", "obj", [1, 2]), op("min", "m1", [3, 4]),
                         op("min", "m2", [3, 5]), mk_leaf(a, "S", 1, gran),
                         mk_leaf(b, "B", 1, gran), mk_leaf(c, "C", 1, gran)],
                        tag=f"shared/{i},{j},{k}")


# ------------------------------------------------------------------ validity oracle
def leaves_of(tree):
    return {n["name"]: (i, n) for i, n in enumerate(tree["nodes"])
            if n["kind"] in ("choose", "windowed", "malleable")}


def judge_solution(tree, model, val, result, bad):
    """One model solution, read back by the real populateResults()."""
    from .. import strl as S

    names = model.name_assignment(val)
    if "error" in result:
        bad("populate.raises", result["error"])
        return None
    placements = result["placements"]
    nodes = tree["nodes"]
    leafs = leaves_of(tree)
    # utility reported == objective of the assignment
    root = result["nodes"].get(str(tree["root"]))
    obj = model.objective(val)
    if root is None or root.get("utility") is None:
        if abs(obj) > 1e-6:
            bad("utility.missing", f"objective {obj} but the root reports no utility")
    elif abs(root["utility"] - obj) > 1e-6:
        bad("utility.differs", f"root reports utility {root['utility']}, objective of "
                               f"the solution is {obj}")
    usage = list(S.fixed_usage(tree))
    sat = {}
    for lname, (idx, n) in leafs.items():
        pl = placements.get(lname)
        allocs = {k: v for k, v in names.items()
                  if k.startswith(lname + "_using_partition_") and v}
        if pl is None or not pl["placed"]:
            sat[idx] = None
            if allocs:
                bad("unsatisfied.holds_resources",
                    f"leaf {lname} is not placed but its usage variables are {allocs}")
            continue
        tot = {}
        for pid, t, q in pl["alloc"]:
            tot[(pid, t)] = tot.get((pid, t), 0) + q
        k = n["kind"]
        if k in ("choose", "windowed"):
            start, end = pl["start"], pl["end"]
            if k == "choose":
                ok_start = start == n["start"]
            else:
                ok_start = start in S.windowed_slots(n)
            if not ok_start or end != start + n["dur"]:
                bad("placement.times",
                    f"leaf {lname} placed in [{start},{end}); requested start "
                    f"{n['start']} duration {n['dur']}")
            total = sum(tot.values())
            if total != n["n"]:
                bad("placement.amount",
                    f"leaf {lname} holds {total} units, requested {n['n']}: {pl}")
            for (pid, t), q in tot.items():
                if pid not in n["parts"]:
                    bad("placement.foreign_partition", f"{lname} uses partition {pid}")
                if t != start:
                    bad("placement.alloc_time", f"{lname} allocation stamped {t} != "
                                                f"start {start}")
                usage.append((pid, start, end, q))
            sat[idx] = (start, end)
        else:
            total = sum(tot.values())
            if total != n["slots"]:
                bad("placement.amount", f"malleable {lname} holds {total} "
                                        f"resource-slots, requested {n['slots']}")
            ts = []
            for (pid, t), q in tot.items():
                if pid not in n["parts"] or not (n["start"] <= t < n["end"]):
                    bad("placement.malleable_cell", f"{lname} uses ({pid},{t})")
                usage.append((pid, t, t + n["gran"], q))
                ts.append(t)
            sat[idx] = (min(ts), max(ts) + n["gran"]) if ts else None
    for lname in placements:
        if lname not in leafs:
            bad("placement.unknown_task", f"placement for {lname}")
    # capacity at granularity 1
    q = tree["partitions"]
    for t in sorted(set(u[1] for u in usage)):
        used = {}
        for pid, t0, t1, x in usage:
            if t0 <= t < t1:
                used[pid] = used.get(pid, 0) + x
        for pid, x in used.items():
            if x > q.get(pid, 0):
                bad("capacity.exceeded",
                    f"partition {pid} holds {x} > {q.get(pid, 0)} at t={t}: "
                    f"{sorted(placements)}", granularity=tree["granularity"])
                break
    # structure
    def span(i):
        n = nodes[i]
        k = n["kind"]
        if k in ("choose", "windowed", "malleable"):
            return sat.get(i)
        if k == "allocation":
            return (n["start"], n["start"] + n["dur"])
        if k == "max":
            cs = [span(c) for c in n["children"]]
            got = [c for c in cs if c is not None]
            if len(got) > 1:
                bad("max.several_children",
                    f"Max {n['name']} has {len(got)} satisfied children")
            return got[0] if got else None
        if k in ("min", "lessthan"):
            kids = n["children"]
            cs = [span(c) for c in kids]
            real = [c for c, ci in zip(cs, kids) if nodes[ci]["kind"] != "allocation"]
            if any(c is not None for c in real) and any(c is None for c in cs):
                if k == "min":
                    bad("min.partial", f"Min {n['name']}: children spans {cs} (some "
                                       f"satisfied, some not)")
                # LessThan: the statement only promises the order of the two children
                return None
            if all(c is not None for c in cs) and any(c is not None for c in real):
                if k == "lessthan" and cs[0][1] > cs[1][0]:
                    bad("lessthan.order",
                        f"LessThan {n['name']}: first child occupies {cs[0]}, second "
                        f"{cs[1]} (first must end before the second starts)",
                        first_kind=nodes[kids[0]]["kind"])
                return (min(c[0] for c in cs), max(c[1] for c in cs))
            return None
        if k == "scale":
            return span(n["children"][0])
        if k == "objective":
            for c in n["children"]:
                span(c)
            return None

    span(tree["root"])
    return obj


def tree_features(tree):
    """Structural facts used to attribute a violation to a recorded root cause."""
    from .. import strl as S

    nodes = tree["nodes"]
    g = tree["granularity"]

    def endpoint(i, which):
        """Start (which=0) or end (which=1) of a sub-expression if it is a constant of
        the tree, None if a solver variable decides it.  As in LessThanExpression::
        parse, a LessThan starts with its first child and ends with its second."""
        n = nodes[i]
        k = n["kind"]
        if k in ("choose", "allocation"):
            return n["start"] + (n["dur"] if which else 0)
        if k == "lessthan":
            return endpoint(n["children"][which], which)
        if k == "scale":
            return endpoint(n["children"][0], which)
        if k == "min":
            vs = [endpoint(c, which) for c in n["children"]]
            if any(v is None for v in vs):
                return None
            return max(vs) if which else min(vs)
        return None

    def dead(i):
        n = nodes[i]
        k = n["kind"]
        if k in ("choose", "windowed", "malleable"):
            return not S.leaf_options(tree, n)
        if k == "allocation":
            return False
        cs = [dead(c) for c in n["children"]]
        if k == "lessthan" and not any(cs):
            ea = endpoint(n["children"][0], 1)
            sb = endpoint(n["children"][1], 0)
            if ea is not None and sb is not None and ea > sb:
                return True  # fixed times in the wrong order
        if k in ("min", "lessthan"):
            return any(cs)
        if k == "max":
            return all(cs)
        if k == "scale":
            return cs[0]
        return False

    dead_child = any(n["kind"] in ("min", "lessthan") and dead(i)
                     for i, n in enumerate(nodes))
    min_alloc_only = any(
        n["kind"] == "min" and all(nodes[c]["kind"] == "allocation"
                                   for c in n["children"]) for n in nodes)
    trivial_lt = False
    for n in nodes:
        if n["kind"] == "lessthan":
            ea = endpoint(n["children"][0], 1)
            sb = endpoint(n["children"][1], 0)
            if ea is not None and sb is not None and ea <= sb:
                trivial_lt = True
    residues = set()
    for n in nodes:
        k = n["kind"]
        if k in ("choose", "allocation", "malleable"):
            residues.add(n["start"] % g)
        elif k == "windowed":
            residues.add(0)
    # the dynamic discretisation pass only looks at leaves that are independent (parent
    # is not a Max), Allocations, and the children of a Max whose children are all
    # Choose; its first time range starts at the earliest of those
    parent_of = {}
    for i, n in enumerate(nodes):
        for c in n.get("children", []):
            parent_of.setdefault(c, i)
    counted, uncounted = [], []
    for i, n in enumerate(nodes):
        if n["kind"] not in ("choose", "windowed", "allocation", "malleable"):
            continue
        par = nodes[parent_of[i]] if i in parent_of else None
        if par is not None and par["kind"] == "max" and n["kind"] != "allocation":
            if all(nodes[c]["kind"] == "choose" for c in par["children"]):
                counted.append(n["start"])
            else:
                uncounted.append(n["start"])
        elif n["kind"] in ("choose", "windowed", "allocation"):
            counted.append(n["start"])
        else:
            uncounted.append(n["start"])
    before_first = bool(tree["passes"][2]) and bool(counted) and \
        any(u < min(counted) for u in uncounted)
    return {"dynamic_pass_after_inverted_bounds":
            bool(tree.get("critical_path_left_inverted_bounds")),
            "dynamic_pass_leaf_before_first_range": before_first,
            "dead_child_under_min_or_lessthan": dead_child,
            "trivially_ordered_lessthan": trivial_lt,
            "min_over_allocations_only": min_alloc_only,
            "starts_aligned_to_grid": len(residues) <= 1,
            "granularity": g, "passes": list(tree["passes"]),
            "has_malleable": any(n["kind"] == "malleable" for n in nodes),
            "has_windowed": any(n["kind"] == "windowed" for n in nodes)}


def explore_tree(tree, drv, out, stats):
    from .. import strl as S

    feats = tree_features(tree)

    def bad(rule, msg, **kw):
        if len(out) < 10:
            v = {"rule": rule, "msg": f"{tree['tag']}: {msg}", "case": tree}
            v.update(feats)
            v.update(kw)
            out.append(v)

    dump = drv.load(tree)
    stats["trees"] += 1
    if "error" in dump:
        stats["trees_rejected_by_constructor"] += 1
        return
    # the back-end's own verdict per node (1 = EXPRESSION_NO_UTILITY): a Min / LessThan
    # with such a child is the call site of the recorded "dead child" finding, also
    # when the child only died because an optimisation pass emptied its time window
    pt = dump.get("parse_types", {})
    for i, n in enumerate(tree["nodes"]):
        if n["kind"] in ("min", "lessthan") and \
                any(pt.get(str(c)) == 1 for c in n["children"]):
            feats["dead_child_under_min_or_lessthan"] = True
            feats["dead_child_seen_by_backend"] = True
    H = 12
    model = S.Model(dump["model"], H)
    stats["inactive_rows"] += model.inactive
    best = 0.0
    nsol = 0
    for val in model.solutions(max_solutions=4000):
        nsol += 1
        res = drv.populate(model.rank_assignment(val))
        obj = judge_solution(tree, model, val, res, bad)
        if obj is not None and obj > best:
            best = obj
    stats["solutions"] += nsol
    stats["row_evaluations"] += model.evals
    if nsol >= 4000:
        stats["solution_cap_hit"] += 1
        return
    if hash(tree["tag"]) % 23 == 0:
        # harness self-check: an independent MIP solver must find the same optimum of
        # the dumped model as the exhaustive enumerator (guards against missed points)
        g = gurobi_optimum(dump["model"], model)
        stats["enumerator_cross_checked_with_gurobi"] += 1
        if g is None:
            if nsol:
                raise RuntimeError(f"{tree['tag']}: enumerator found {nsol} solutions, "
                                   f"Gurobi says infeasible")
        elif abs(g - best) > 1e-6:
            raise RuntimeError(f"{tree['tag']}: enumerator optimum {best} != Gurobi "
                               f"optimum {g} on the same dumped model")
    ref, nref = S.reference_optimum(tree)
    stats["reference_evaluations"] += nref
    if ref > 0:
        stats["trees_with_positive_optimum"] += 1
    dynamic = tree["passes"][2]
    if tree["granularity"] == 1 and not dynamic:
        if abs(best - ref) > 1e-6:
            bad("optimum.differs",
                f"best objective over all {nsol} model solutions is {best}, brute-force "
                f"optimum of the expression is {ref}", best=best, reference=ref)
        else:
            stats["optimum_matched"] += 1
    else:
        if best > ref + 1e-6:
            bad("optimum.coarse_exceeds_fine",
                f"discretisation {tree['granularity']}: best objective {best} > optimum "
                f"{ref} of the expression at granularity 1", best=best, reference=ref)
        else:
            stats["coarse_within_fine"] += 1


def gurobi_optimum(dump, model):
    import gurobipy as gp
    from gurobipy import GRB

    m = gp.Model()
    m.Params.OutputFlag = 0
    m.Params.Threads = 1
    xs = {}
    for vid, (name, typ, lb, ub) in model.vars.items():
        xs[vid] = m.addVar(lb=lb, ub=ub, vtype=GRB.BINARY if typ == 2 else
                           (GRB.INTEGER if typ == 1 else GRB.CONTINUOUS))
    for terms, sense, rhs, _n in model.rows:
        e = gp.quicksum(c * xs[v] for v, c in terms.items())
        if sense == 0:
            m.addConstr(e <= rhs)
        elif sense == 2:
            m.addConstr(e >= rhs)
        else:
            m.addConstr(e == rhs)
    m.setObjective(gp.quicksum(c * xs[v] for c, v in model.obj) + model.obj_const,
                   GRB.MAXIMIZE)
    m.optimize()
    if m.Status == GRB.OPTIMAL:
        return m.ObjVal
    if m.Status in (GRB.INFEASIBLE, GRB.INF_OR_UNBD):
        return None
    raise RuntimeError(f"Gurobi status {m.Status} in the enumerator self-check")


STAT_KEYS = ("enumerator_cross_checked_with_gurobi", "trees", "trees_rejected_by_constructor", "inactive_rows", "solutions",
             "row_evaluations", "solution_cap_hit", "reference_evaluations",
             "trees_with_positive_optimum", "optimum_matched", "coarse_within_fine")
_DRV = {}


def job(item, exe):
    from .. import strl as S

    drv = _DRV.get(exe)
    if drv is None:
        drv = S.Driver(exe)
        _DRV[exe] = drv
    out = []
    stats = {k: 0 for k in STAT_KEYS}
    batch = item if isinstance(item, list) else [item]
    for tree in batch:
        if tree["passes"][0] and tree["passes"][2]:
            # what the critical-path pass leaves behind, seen through the back-end
            # itself: the same tree without the dynamic pass, then the time bounds of
            # its leaves (an unsatisfiable leaf keeps *inverted* bounds)
            pre = dict(tree, passes=(tree["passes"][0], tree["passes"][1], 0))
            inv = False
            try:
                d0 = drv.load(pre)
                for i, n in enumerate(tree["nodes"]):
                    tb = d0.get("time_bounds", {}).get(str(i))
                    if tb and n["kind"] in ("choose", "windowed", "allocation") and \
                            (tb[0] > tb[1] or tb[2] > tb[3] or tb[0] > tb[3]):
                        inv = True
            except S.DriverHang:
                drv = S.Driver(exe)
                _DRV[exe] = drv
            tree["critical_path_left_inverted_bounds"] = inv
        try:
            explore_tree(tree, drv, out, stats)
        except S.DriverHang as e:
            # compiling / reading back this tree does not terminate in the back-end
            f = tree_features(tree)
            v = {"rule": "backend.hang", "msg": f"{tree['tag']}: {e}", "case": tree}
            v.update(f)
            out.append(v)
            drv = S.Driver(exe)
            _DRV[exe] = drv
    return {"states": stats["solutions"], "transitions": stats["row_evaluations"],
            "validated": stats["solutions"], "evaluations": stats["trees"],
            "stats": stats, "violations": out,
            "distinct": [hash(t["tag"]) for t in batch],
            "samples": [{"tag": batch[0]["tag"], "nodes": batch[0]["nodes"]}]
            if hash(batch[0]["tag"]) % 211 == 0 else []}


def confirm_job(case, exe):
    return job(case, exe)


def batches(it, n=20):
    b = []
    for t in it:
        b.append(t)
        if len(b) == n:
            yield b
            b = []
    if b:
        yield b


def main(tier, seed):
    from .. import strl as S

    exe = S.build_driver()
    run_generic(
        "C20", tier, seed, batches(trees(tier, seed)), job, extra=(exe,), engine="e5",
        rule="trees Objective(child+), child in {Min, Max(leaf+), LessThan, Scale, "
             "leaf}, leaf in {Choose, WindowedChoose, Allocation"
             "} with <= 3 leaves incl. a shared leaf, 2 partitions (quantity 2, 1), "
             "demands 1-3, start now-1..now+2, durations 1-3, discretisation 1-" +
             ("3" if tier == "thorough" else "2") +
             ", pass subsets; every solution of the dumped model enumerated",
        assumptions=["the TBB shim makes the back-end sequential: nothing is claimed "
                     "about data races in the parallel leaf parsing",
                     "states = model solutions (all decision-variable assignments with "
                     "a witness for the auxiliary time variables within [-12, 12]); "
                     "transitions = row evaluations of the enumerator; validated = "
                     "solutions pushed through the real populateResults()",
                     "WindowedChoose start slots follow the constructor's documented "
                     "time bounds (start range [start, end] on the granularity grid)"],
        required_stats=("trees", "solutions", "optimum_matched",
                        "enumerator_cross_checked_with_gurobi",
                        "trees_with_positive_optimum", "coarse_within_fine"),
        chunk=1, budget_s=280 if tier == "quick" else 900, confirm_job=confirm_job)


def replay(path):
    from .. import strl as S

    exe = S.build_driver()
    return generic_replay("C20", path, confirm_job, extra=(exe,), item_job=job)
