"""C09 -- runs are reproducible from the random seed (engine E6).

Every point of a configuration grid (workloads using each random source x policies x
seeds) is executed as three fresh `python main.py` processes under different
(PYTHONHASHSEED, clock skew) environments; the traces must be identical after masking
the wall-clock column of SCHEDULER_FINISHED and the path-valued input_flag rows.
Secondary: in-process double runs (real randomness, no tape) over S-dag / S-cond.

Level: exploration -- the grid is enumerated completely, but the hash-seed / machine
dimension is covered at three fixed points only."""
import json
import os

from .. import worlds as W
from ..checklib import run_generic, generic_replay

ENVS = [
    {"PYTHONHASHSEED": "0"},
    {"PYTHONHASHSEED": "1", "VF_CLOCK_SKEW": "x1000"},
    {"PYTHONHASHSEED": "4242", "VF_CLOCK_SKEW": "+86400"},
]
PATH_FLAGS = ("log_dir", "csv_file_name", "log_file_name", "workload_profile_path",
              "worker_profile_path", "log", "csv")


def mask(rows):
    out = []
    for r in rows:
        f = r.split(",")
        if f[0] == "input_flag" and len(f) > 1 and f[1] in PATH_FLAGS:
            continue
        if len(f) > 1 and f[1] == "SCHEDULER_FINISHED":
            f[-1] = "*"
            r = ",".join(f)
        out.append(r)
    return out


def grid(tier, seed):
    """(tag, world) list."""
    g = []
    names = W.names_for(3, seed)
    fork = ((0, 1), (0, 2))
    two_types = [[W.strat(2, CPU=1)], [W.strat(1, GPU=1), W.strat(3, CPU=1)],
                 [W.strat(2, CPU=1, GPU=1)]]
    clus = W.cluster([dict(CPU=2, GPU=1, RAM=1)], [dict(GPU=1, CPU=1)])
    rels = {
        "fixed+variance": ({"release_policy": "fixed", "period": 2, "invocations": 3},
                           (50, 150)),
        "poisson": ({"release_policy": "poisson", "rate": 0.3, "invocations": 4},
                    (100, 100)),
        "gamma": ({"release_policy": "gamma", "rate": 0.3, "coefficient": 2,
                   "invocations": 4}, (100, 100)),
    }
    pols = {"EDF": W.GREEDY["EDF"], "FIFO": W.GREEDY["FIFO"], "LSF": W.GREEDY["LSF"]}
    pp = W.planner_policies()
    pols["ILP+la"] = pp["ILP+la"]
    pols["TSG+rtg"] = pp["TSG+rtg"]
    # 0 is the default of --random_seed and falsy: it gets its own grid column
    seeds = (0, 1, 2, 3) if tier == "thorough" else (0, 1 + seed % 3)
    for rk, (rel, var) in rels.items():
        wl = W.workload_from_dag(names, fork, two_types, rel, var)
        for pk, pf in pols.items():
            if tier == "quick" and pk in ("FIFO",) and rk != "poisson":
                continue
            for sd in seeds:
                for extra_k, extra in (("", {}), ("+rv", {"runtime_variance": 50})):
                    if extra_k and (pk not in ("EDF", "ILP+la") or rk != "fixed+variance"):
                        continue
                    g.append((f"{rk} {pk}{extra_k} seed={sd}",
                              W.mk_world(wl, clus, dict(pf, **extra), sd, tape=None)))
    # millisecond-scale tasks whose slack (0-30 % of 1000 us) is of the order of the
    # policies' own wall-clock latency, with deadline enforcement: a decision that
    # depends on measured time shows up as a different set of cancelled tasks between
    # the real clock and the x1000 clock
    slow = [[W.strat(1000, CPU=1)], [W.strat(800, CPU=1)], [W.strat(1200, CPU=1)]]
    for rk, rel in (("fixed", {"release_policy": "fixed", "period": 700,
                               "invocations": 4}),
                    ("poisson", {"release_policy": "poisson", "rate": 0.002,
                                 "invocations": 4})):
        wl = W.workload_from_dag(names, fork, slow, rel, (0, 30))
        for pk in ("EDF+enf", "FIFO+enf"):
            pf = dict(W.GREEDY_ENF[pk])
            for sd in seeds:
                g.append((f"latency-scale {rk} {pk} seed={sd}",
                          W.mk_world(wl, W.cluster([dict(CPU=2)]), pf, sd, tape=None)))
    conds = list(W.s_cond({"EDF": pols["EDF"], "ILP+la": dict(pols["ILP+la"],
                                                              scheduler_policy="random")},
                          seed, resolve_modes=(False, True), clusters=("1x2",),
                          releases=("two@0",), runtimes=(1,)))
    for w in conds:
        if tier == "quick" and not ("nested" in w["tag"] or "if3" in w["tag"]
                                    or "p=(0.25" in w["tag"]):
            continue
        for sd in seeds:
            w2 = dict(w, tape=None)
            w2["flags"] = dict(w["flags"], random_seed=sd)
            g.append((f"cond {w['tag']} seed={sd}", w2))
    return g


def proc_job(item, tier):
    """Run one grid point as fresh processes under every environment."""
    from .. import bootstrap  # noqa: F401
    from .. import harness as H

    tag, world = item
    skew_dir = os.path.join(os.path.dirname(os.path.dirname(os.path.abspath(__file__))),
                            "skew")
    outs = []
    for env in ENVS:
        e = dict(env)
        e["PYTHONPATH"] = skew_dir
        rows, rc, err = H.run_subprocess(world, env_extra=e)
        outs.append((mask(rows), rc, err))
    out = []
    base = outs[0]
    for k, o in enumerate(outs[1:], 1):
        if o[0] != base[0] or o[1] != base[1]:
            diff = None
            for i, (x, y) in enumerate(zip(base[0], o[0])):
                if x != y:
                    diff = (i, x, y)
                    break
            if diff is None:
                diff = (min(len(base[0]), len(o[0])), f"{len(base[0])} rows rc={base[1]}",
                        f"{len(o[0])} rows rc={o[1]} {o[2][-200:]}")
            rp = world["workload"]["graphs"][0].get("release_policy")
            out.append({"rule": "process.trace_differs", "ident": tag,
                        "msg": f"{tag}: env {ENVS[0]} vs {ENVS[k]}: first difference at "
                               f"row {diff[0]}: {diff[1]!r} != {diff[2]!r}",
                        "case": {"tag": tag, "world": world}, "world": world,
                        "release_policy": rp})
            break
    nontrivial = len(base[0]) > 20 and base[1] == 0
    return {"states": 1, "transitions": len(ENVS), "validated": len(ENVS),
            "evaluations": len(ENVS),
            "stats": {"grid_points": 1, "processes": len(ENVS),
                      "nonzero_exit": 1 if base[1] != 0 else 0,
                      "rows_compared": len(base[0])},
            "violations": out, "distinct": [hash(tag)] if nontrivial else [],
            "samples": [{"tag": tag, "rows": len(base[0]),
                         "tail": base[0][-2:]}] if "gamma EDF" in tag else []}


def inproc_job(item, tier):
    """The same world twice in one process with real randomness: rows must agree."""
    from .. import bootstrap  # noqa: F401
    from .. import harness as H

    tag, world = item
    w = dict(world, tape=None)
    a = H.run_world(w)
    b = H.run_world(w)
    out = []
    if mask(a.rows) != mask(b.rows) or a.status != b.status:
        out.append({"rule": "inprocess.trace_differs", "ident": tag,
                    "msg": f"{tag}: two in-process runs differ",
                    "case": {"tag": tag, "world": w, "inproc": True}, "world": w})
    return {"states": 1, "transitions": 2, "validated": 2, "evaluations": 2,
            "stats": {"inprocess_double_runs": 1}, "violations": out,
            "distinct": [hash(tag)], "samples": []}


def job(item, tier):
    if item[0] == "proc":
        return proc_job(item[1], tier)
    if item[0] == "inproc":
        return inproc_job(item[1], tier)
    if item[0] == "case":
        c = item[1]
        if c.get("inproc"):
            return inproc_job((c["tag"], c["world"]), tier)
        return proc_job((c["tag"], c["world"]), tier)


def confirm_job(case, tier):
    return job(("case", case), tier)


def items(tier, seed):
    it = [("proc", g) for g in grid(tier, seed)]
    pol = {"EDF": W.GREEDY["EDF"], "LSF": W.GREEDY["LSF"]}
    n = 0
    for w in W.s_dag(pol, seed, max_n=3 if tier == "quick" else 4,
                     clusters=("2w", "2p"), releases=("two@1",),
                     slacks=((50, 150),)):
        it.append(("inproc", (w["tag"], w)))
        n += 1
    for w in W.s_cond(pol, seed, clusters=("1x2",), releases=("two@0",)):
        it.append(("inproc", (w["tag"], w)))
    return it


def main(tier, seed):
    run_generic(
        "C09", tier, seed, items(tier, seed), job, extra=(tier,), engine="e6",
        level="exploration",
        rule="grid: {fixed+deadline variance, poisson, gamma, conditionals (both "
             "resolution modes), runtime variance} x {EDF, FIFO, LSF, ILP+lookahead, "
             "TetriSched_Gurobi+release_taskgraphs} x seeds, two resource types so that "
             "set-of-string iteration matters; each point = 3 fresh processes with "
             "(PYTHONHASHSEED, clock) in {(0, real), (1, x1000), (4242, +1 day)}; "
             "non-trivial = exit 0 with more than 20 rows",
        assumptions=["hash-seed and wall-clock dimensions are covered at three fixed "
                     "points, not exhaustively (level: exploration)",
                     "masked: last column of SCHEDULER_FINISHED (measured solver time) "
                     "and path-valued input_flag rows"],
        required_stats=("grid_points", "inprocess_double_runs"), chunk=1,
        budget_s=280 if tier == "quick" else 900, confirm_job=confirm_job)


def replay(path):
    return generic_replay("C09", path, confirm_job, extra=("quick",), item_job=job)
