"""C16 -- exact, totally ordered time; ordered event queue (engines E3 + E2).

E3: all pairs / triples of boundary values x units on the real EventTime operators
against Python integers of microseconds.
E2: breadth-first search over every sequence of add / remove / in-place re-time +
reheapify / next on the real EventQueue (states de-duplicated on the heap array),
against a sorted-list reference."""
import itertools

from ..checklib import run_generic, generic_replay

UNITS = ("US", "MS", "S")
MULT = {"US": 1, "MS": 1000, "S": 1000000}
BIG = 2 ** 53 - 1


def values_for(unit, tier):
    m = MULT[unit]
    base = [0, 1, 999, 1000, 1001, 10 ** 6 - 1, 10 ** 6, 10 ** 6 + 1, BIG // m]
    if tier == "thorough":
        base += [2, 7, 499, 500, 10 ** 9 + 7, BIG // m - 1, (BIG // m) // 2]
    vals = set()
    for v in base:
        if abs(v * m) <= BIG:
            vals.add(v)
            vals.add(-v)
    return sorted(vals)


def all_values(tier):
    return [(v, u) for u in UNITS for v in values_for(u, tier)]


def micro(v, u):
    return v * MULT[u]


def time_job(item, tier):
    from .. import bootstrap  # noqa: F401
    from utils import EventTime

    kind, lo, hi = item
    vals = all_values(tier)
    U = {"US": EventTime.Unit.US, "MS": EventTime.Unit.MS, "S": EventTime.Unit.S}
    out = []
    n = 0

    def mk(v, u):
        return EventTime(v, U[u])

    def bad(rule, msg, case):
        if len(out) < 30:
            # replay = the same work item again (same rows, same kind, same value set)
            out.append({"rule": rule, "msg": msg,
                        "case": dict(case, item=[kind, lo, hi], tier=tier)})

    def exact_us(t):
        return t.time * int(t.unit.value)

    for ia in range(lo, hi):
        va, ua = vals[ia]
        a, A = mk(va, ua), micro(va, ua)
        # unary: hash, conversions
        n += 1
        try:
            if hash(a) != hash(A):
                bad("hash", f"hash(EventTime({va},{ua}))={hash(a)} != hash({A})",
                    {"a": [va, ua]})
        except Exception as e:  # noqa: B902
            bad("hash.raises", f"hash(EventTime({va},{ua})) raised {e!r}",
                {"a": [va, ua]})
        for ut in UNITS:
            n += 1
            if MULT[ut] > MULT[ua]:
                try:
                    r = a.to(U[ut])
                    bad("to.coarser_accepted",
                        f"EventTime({va},{ua}).to({ut}) returned {r!r} instead of "
                        f"raising", {"a": [va, ua], "to": ut})
                except ValueError:
                    pass
            else:
                try:
                    r = a.to(U[ut])
                    if exact_us(r) != A or r.unit != U[ut]:
                        bad("to.finer_inexact",
                            f"EventTime({va},{ua}).to({ut}) = {r!r}, expected {A} us",
                            {"a": [va, ua], "to": ut})
                except Exception as e:  # noqa: B902
                    bad("to.finer_raises", f"EventTime({va},{ua}).to({ut}) raised {e!r}",
                        {"a": [va, ua], "to": ut})
        for vb, ub in vals:
            b, Bv = mk(vb, ub), micro(vb, ub)
            case = {"a": [va, ua], "b": [vb, ub]}
            n += 1
            try:
                if (a == b) != (A == Bv):
                    bad("eq", f"({va}{ua} == {vb}{ub}) = {a == b}", case)
                if (a < b) != (A < Bv):
                    bad("lt", f"({va}{ua} < {vb}{ub}) = {a < b}", case)
                if (a <= b) != (A <= Bv):
                    bad("le", f"({va}{ua} <= {vb}{ub}) = {a <= b}", case)
                if (a > b) != (A > Bv):
                    bad("gt", f"({va}{ua} > {vb}{ub}) = {a > b}", case)
                if A == Bv and hash(a) != hash(b):
                    bad("hash.eq", f"equal times {va}{ua}, {vb}{ub} hash differently",
                        case)
                if abs(A + Bv) <= BIG:
                    s = a + b
                    if exact_us(s) != A + Bv:
                        bad("add", f"{va}{ua} + {vb}{ub} = {s!r}, expected {A + Bv} us",
                            case)
                    elif exact_us((a + b) - b) != A:
                        bad("add_sub", f"({va}{ua} + {vb}{ub}) - {vb}{ub} != {va}{ua}",
                            case)
                if abs(A - Bv) <= BIG:
                    d = a - b
                    if exact_us(d) != A - Bv:
                        bad("sub", f"{va}{ua} - {vb}{ub} = {d!r}, expected {A - Bv} us",
                            case)
            except Exception as e:  # noqa: B902
                bad("binary.raises", f"operators on {va}{ua}, {vb}{ub} raised {e!r}",
                    case)
            if kind == "triples":
                # transitivity / associativity on a reduced third axis
                for vc, uc in vals[::3]:
                    c, C = mk(vc, uc), micro(vc, uc)
                    n += 1
                    if abs(A + Bv) <= BIG and abs(Bv + C) <= BIG and \
                            abs(A + Bv + C) <= BIG:
                        try:
                            l, r = (a + b) + c, a + (b + c)
                            if exact_us(l) != A + Bv + C or exact_us(r) != A + Bv + C:
                                bad("assoc", f"({va}{ua}+{vb}{ub})+{vc}{uc} inexact",
                                    dict(case, c=[vc, uc]))
                        except Exception as e:  # noqa: B902
                            bad("ternary.raises", f"{e!r}", dict(case, c=[vc, uc]))
                    if (a < b and b < c) and not (a < c):
                        bad("lt.transitive", f"{va}{ua} < {vb}{ub} < {vc}{uc}",
                            dict(case, c=[vc, uc]))
    return {"states": hi - lo, "transitions": n, "validated": n, "evaluations": n,
            "stats": {"time_cases": n}, "violations": out,
            "distinct": [hash((kind, i)) for i in range(lo, hi)],
            "samples": [{"a": list(vals[lo]), "kind": kind}] if lo == 0 else []}


# ---------------------------------------------------------------------------- queue
TEMPLATES = [
    # (event type name, task name or None, initial time)
    ("TASK_FINISHED", "A", 1),
    ("TASK_RELEASE", "B", 1),
    ("TASK_FINISHED", "B", 1),
    ("SCHEDULER_START", None, 2),
    ("SCHEDULER_START", None, 2),
    ("TASK_PLACEMENT", "A", 0),
]
RETIMES = (0, 1, 3)


def queue_job(item, tier):
    """One BFS over all op sequences from the empty queue (single work item)."""
    from .. import bootstrap  # noqa: F401
    import simulator as S
    from utils import EventTime
    from workload import Job, Task, Placement

    depth = item[1]
    US = EventTime.Unit.US
    jobs = {"A": Job(name="A"), "B": Job(name="B")}
    tasks = {k: Task(name=k, task_graph="G", job=jobs[k], deadline=EventTime(10, US))
             for k in jobs}
    out = []

    def mk_event(i, t):
        et, tn, _t0 = TEMPLATES[i]
        kw = {}
        if tn is not None:
            kw["task"] = tasks[tn]
        if et == "TASK_PLACEMENT":
            kw["placement"] = Placement.create_task_placement(task=tasks[tn])
        return S.Event(event_type=getattr(S.EventType, et), time=EventTime(t, US), **kw)

    def build(hist):
        """Replay a history on a fresh real EventQueue; returns (queue, events dict,
        popped list)."""
        q = S.EventQueue()
        evs = {}
        popped = []
        for op in hist:
            if op[0] == "add":
                e = mk_event(op[1], TEMPLATES[op[1]][2])
                evs[op[1]] = e
                q.add_event(e)
            elif op[0] == "remove":
                q.remove_event(evs.pop(op[1]))
            elif op[0] == "retime":
                evs[op[1]]._time = EventTime(op[2], US)
                q.reheapify()
            elif op[0] == "next":
                e = q.next()
                for k, v in list(evs.items()):
                    if v is e:
                        del evs[k]
                        popped.append(k)
        return q, evs, popped

    def key_of(e):
        return (e.time.time, e.event_type.value)

    def canon(q, evs):
        inv = {id(v): k for k, v in evs.items()}
        return tuple((inv[id(e)], e.time.time) for e in q._event_queue)

    seen = {()}
    frontier = [()]
    transitions = 0
    states = 1
    maxd = 0
    stats = {"queue_pops_checked": 0, "queue_tie_pops": 0}
    for d in range(depth):
        nxt = []
        for hist in frontier:
            q, evs, _ = build(hist)
            ops = []
            for i in range(len(TEMPLATES)):
                if i in evs:
                    ops.append(("remove", i))
                    for t in RETIMES:
                        if t != evs[i].time.time:
                            ops.append(("retime", i, t))
                else:
                    ops.append(("add", i))
            if len(q) > 0:
                ops.append(("next",))
            for op in ops:
                h2 = hist + (op,)
                q2, evs2, popped = build(h2)
                transitions += 1
                # invariants / reference
                if op[0] == "next":
                    # q (before) vs popped element
                    present = {k: v for k, v in evs.items()}
                    got = [k for k in present if k not in evs2][0]
                    gk = key_of(present[got])
                    mn = min(key_of(v) for v in present.values())
                    stats["queue_pops_checked"] += 1
                    if gk != mn:
                        out.append({"rule": "queue.not_minimal",
                                    "msg": f"history {list(h2)}: next() returned "
                                           f"template {got} key {gk}, minimum {mn}",
                                    "case": {"queue_history": [list(o) for o in h2]}})
                    ties = [k for k, v in present.items() if key_of(v) == mn]
                    if len(ties) > 1:
                        stats["queue_tie_pops"] += 1
                        named = [k for k in ties if TEMPLATES[k][1] is not None]
                        if len(named) == len(ties):
                            best = min(named, key=lambda k: TEMPLATES[k][1] + "@G")
                            bn = TEMPLATES[best][1]
                            if TEMPLATES[got][1] != bn:
                                out.append({
                                    "rule": "queue.name_tiebreak",
                                    "msg": f"history {list(h2)}: equal time/type, "
                                           f"returned task {TEMPLATES[got][1]} before "
                                           f"{bn}",
                                    "case": {"queue_history": [list(o) for o in h2]}})
                if len(q2) != len(evs2):
                    out.append({"rule": "queue.size", "msg": f"history {list(h2)}: "
                                f"len {len(q2)} != {len(evs2)} events present",
                                "case": {"queue_history": [list(o) for o in h2]}})
                if len(q2) > 0:
                    pk = key_of(q2.peek())
                    mn = min(key_of(v) for v in evs2.values())
                    if pk != mn:
                        out.append({"rule": "queue.peek_not_minimal",
                                    "msg": f"history {list(h2)}: peek key {pk}, "
                                           f"minimum {mn}",
                                    "case": {"queue_history": [list(o) for o in h2]}})
                    for etn in set(v.event_type.name for v in evs2.values()):
                        et = getattr(S.EventType, etn)
                        g = q2.get_next_event_of_type(et)
                        m2 = min(v.time.time for v in evs2.values()
                                 if v.event_type == et)
                        if g is None or g.time.time != m2:
                            out.append({"rule": "queue.next_of_type",
                                        "msg": f"history {list(h2)}: next of type "
                                               f"{et.name} wrong",
                                        "case": {"queue_history": [list(o) for o in h2]}})
                if len(out) > 20:
                    del out[20:]
                c = canon(q2, evs2)
                if c not in seen:
                    seen.add(c)
                    nxt.append(h2)
                    states += 1
                    maxd = d + 1
        frontier = nxt
        if not frontier:
            break
    # drain check from every frontier state: full pop order is sorted
    drained = 0
    for hist in frontier[:2000]:
        q, evs, _ = build(hist)
        prev = None
        while len(q) > 0:
            e = q.next()
            k = key_of(e)
            if prev is not None and k < prev:
                out.append({"rule": "queue.drain_order",
                            "msg": f"history {list(hist)}: drained {k} after {prev}",
                            "case": {"queue_history": [list(o) for o in hist]}})
                break
            prev = k
        drained += 1
    stats["queue_drains"] = drained
    stats["queue_fixpoint_reached"] = 0 if frontier else 1
    return {"states": states, "transitions": transitions, "validated": transitions,
            "evaluations": transitions, "stats": stats, "violations": out,
            "distinct": [hash(c) for c in seen],
            "samples": [{"queue_state": list(next(iter(seen - {()}), ())),
                         "max_depth": maxd}]}


FULL_EVENTS = [
    ("TASK_FINISHED", "A"), ("TASK_RELEASE", "B"), ("TASK_FINISHED", "B"),
    ("SCHEDULER_START", None), ("TASK_PLACEMENT", "A"), ("TASK_RELEASE", "A"),
    ("SCHEDULER_START", None),
]


def full_queue_job(item, tier):
    """Populated queues (the BFS above needs 7+ operations to get there): 7 pending
    events, *every* vector of times in {0..3}^7 with the first two fixed by the work
    item (different vectors give different heap layouts), then every single removal
    and every single in-place re-timing (thorough: every ordered pair of them), then a
    full drain: pops must come out in non-decreasing (time, type priority) order and be
    exactly the events that were pending."""
    from .. import bootstrap  # noqa: F401
    import simulator as S
    from utils import EventTime
    from workload import Job, Task, Placement

    _k, t0, t1 = item[:3]
    pairs = tier == "thorough"
    US, MS = EventTime.Unit.US, EventTime.Unit.MS
    jobs = {"A": Job(name="A"), "B": Job(name="B")}
    tasks = {k: Task(name=k, task_graph="G", job=jobs[k], deadline=EventTime(10, US))
             for k in jobs}
    out = []
    n_ev = len(FULL_EVENTS)

    def mk(i, t):
        et, tn = FULL_EVENTS[i]
        kw = {}
        if tn is not None:
            kw["task"] = tasks[tn]
        if et == "TASK_PLACEMENT":
            kw["placement"] = Placement.create_task_placement(task=tasks[tn])
        # mixed units: odd events carry their time in ms (t ms = 1000 t us) -- the
        # order must follow the microsecond value, not the raw number
        tm = EventTime(t, MS) if i % 2 else EventTime(t * 1000, US)
        return S.Event(event_type=getattr(S.EventType, et), time=tm, **kw)

    def key_of(e):
        return (e.time.time * int(e.time.unit.value), e.event_type.value)

    single = [("remove", i) for i in range(n_ev)] + \
             [("retime", i, t) for i in range(n_ev) for t in (0, 2, 3)]
    scripts = [()] + [(o,) for o in single]
    if pairs:
        scripts += [(a, b) for a in single for b in single
                    if not (a[0] == "remove" and b[1] == a[1])]
    n = 0
    layouts = set()
    stats = {"full_queue_scenarios": 0, "full_queue_pops": 0,
             "full_queue_removals_below_the_root": 0}
    for rest in itertools.product(range(4), repeat=n_ev - 2):
        times = (t0, t1) + rest
        for script in scripts:
            q = S.EventQueue()
            evs = [mk(i, times[i]) for i in range(n_ev)]
            for e in evs:
                q.add_event(e)
            present = dict(enumerate(evs))
            if not script:
                layouts.add(tuple((i, times[i]) for i in
                                  (next(k for k, x in enumerate(evs) if x is e)
                                   for e in q._event_queue)))
            for op in script:
                if op[0] == "remove":
                    if q._event_queue.index(present[op[1]]) > 0:
                        stats["full_queue_removals_below_the_root"] += 1
                    q.remove_event(present.pop(op[1]))
                else:
                    e = present[op[1]]
                    e._time = EventTime(op[2], MS) if op[1] % 2 \
                        else EventTime(op[2] * 1000, US)
                    q.reheapify()
            want = sorted(key_of(e) for e in present.values())
            got = []
            ids = set()
            while len(q) > 0:
                e = q.next()
                got.append(key_of(e))
                ids.add(id(e))
            stats["full_queue_pops"] += len(got)
            n += 1
            if got != want or ids != set(id(e) for e in present.values()):
                if len(out) < 10:
                    out.append({
                        "rule": "queue.drain_order",
                        "msg": f"7 pending events with times {list(times)} (odd ones in "
                               f"ms), then {list(script)}: popped keys {got}, expected "
                               f"{want}",
                        "case": {"full_queue": [t0, t1]}})
    stats["full_queue_scenarios"] = n
    return {"states": len(layouts), "transitions": n, "validated": n, "evaluations": n,
            "stats": stats, "violations": out,
            "distinct": [hash(l) for l in layouts],
            "samples": [{"full_queue_first_times": [t0, t1], "heap_layouts": len(layouts),
                         "scenarios": n}] if (t0, t1) == (1, 2) else []}


def job(item, tier):
    if item[0] == "full_queue":
        return full_queue_job(item, tier)
    if item[0] in ("pairs", "triples"):
        return time_job(item, tier)
    if item[0] == "queue":
        return queue_job(item, tier)
    if item[0] == "case":
        return case_job(item[1], tier)


def case_job(case, tier):
    """Replay of one recorded case."""
    from .. import bootstrap  # noqa: F401

    if "full_queue" in case:
        return {"violations": full_queue_job(("full_queue",) + tuple(case["full_queue"]),
                                             tier)["violations"]}
    if "queue_history" in case:
        # re-run the BFS to the length of the history; cheap
        r = queue_job(("queue", len(case["queue_history"])), tier)
        return {"violations": [v for v in r["violations"]]}
    kind, lo, hi = case["item"]
    return {"violations": time_job((kind, lo, hi), case.get("tier", tier))["violations"]}


def items(tier):
    vals = all_values(tier)
    n = len(vals)
    it = []
    step = 4
    kind = "triples"
    for lo in range(0, n, step):
        it.append((kind, lo, min(n, lo + step)))
    it.append(("queue", 6 if tier == "quick" else 8))
    for t0 in range(4):
        for t1 in range(4):
            it.append(("full_queue", t0, t1))
    return it


def confirm_job(case, tier):
    return case_job(case, tier)


def main(tier, seed):
    run_generic(
        "C16", tier, seed, items(tier), job, extra=(tier,), engine="e3+e2",
        rule="all pairs (and triples on a reduced third axis) of boundary values "
             "{0,+-1,+-999,+-1000,+-1001,+-(1e6+-1),+-(2^53-1)/unit} x {us,ms,s}; "
             "event queue: BFS over all add/remove/re-time+reheapify/next sequences on "
             "6 event templates to the stated depth, de-duplicated on the heap array; "
             "populated queues: 7 pending events x every time vector in {0..3}^7 (mixed "
             "us/ms) x every single removal / in-place re-timing (thorough: every "
             "ordered pair) followed by a full drain",
        assumptions=["magnitudes below 2^53 us as stated by the property",
                     "for equal (time, type) events without tasks any order is "
                     "accepted (the ordering key documents none)"],
        required_stats=("time_cases", "queue_pops_checked", "queue_tie_pops",
                        "full_queue_scenarios", "full_queue_removals_below_the_root"),
        chunk=1,
        budget_s=240 if tier == "quick" else 900, confirm_job=confirm_job)


def replay(path):
    return generic_replay("C16", path, confirm_job, extra=("quick",), item_job=job)
