"""C10 -- every policy returns a complete, feasible, side-effect-free decision
(engines E3/E4 direct calls + E1 wrapper).

* direct: mixed-state inputs (released / scheduled-for-later / running / completed
  tasks on partially occupied heterogeneous clusters) built with real transitions are
  handed to the real schedule() of EDF, FIFO, LSF, ILP, TetriSched-Gurobi,
  TetriSched-CPLEX and Z3: decision contract, joint capacity feasibility over all
  planned instants (pool-level placements: some worker assignment, brute force),
  before/after snapshots of every live getter and task;
* E4: the capacity clause on *every* feasible point of the captured models;
* E1: the same contract on every schedule() call of whole simulations (Clockwork
  included), see vf/sched_monitor.py."""
from . import _e4props, _e1props
from .. import e4_instances as EI
from ..checklib import combine_and_finish

EXTRA = ["vf.sched_monitor.SchedMonitor"]


def instances(tier, seed):
    th = tier == "thorough"
    prog = ("fresh", "running", "completed", "scheduled", "other_running")
    for pol in ("EDF", "FIFO", "LSF"):
        yield from EI.gen([pol], tier, seed, max_n=3, variants=(0, 1, 3, 4),
                          clusters=("c2", "c1c1", "c1c2", "c2c1", "c2|c1", "c2g1"),
                          progress=prog, deadlines=("loose", "tight"))
    for pol in ("ILP", "TSG", "TSC", "Z3"):
        yield from EI.gen([pol], tier, seed, max_n=3 if th else 2,
                          variants=(0, 1, 3, 4) if th else (0, 1, 4),
                          clusters=("c2", "c1c2", "c2|c1", "c2g1"),
                          progress=prog, deadlines=("loose",))
        if not th:
            yield from EI.gen([pol], tier, seed, shapes=("fork", "join", "indep3"),
                              max_n=3, variants=(0,), clusters=("c2",),
                              progress=("fresh", "running"), deadlines=("loose",),
                              opt_keys=("la", "rtg", "plain"))
        # three tasks over two resource types of one unit each
        yield from EI.gen([pol], tier, seed, shapes=("indep3", "chain+1", "fork"),
                          max_n=3, variants=(5, 6), clusters=("c1g1",),
                          progress=("fresh",) if not th else ("fresh", "running"),
                          deadlines=("loose",), opt_keys=("la", "rtg", "plain"))


def main(tier, seed):
    e4 = _e4props.run(
        "C10", tier, seed, instances(tier, seed), finish=False, max_points=20000,
        rule="mixed-state scheduler inputs: DAG shapes <= 3 x strategy variants (single, "
             "fast-big/slow-small, GPU alternative, contended 2-CPU) x clusters (1-2 "
             "pools, 1-2 workers, heterogeneous) x progress {fresh, running, completed, "
             "scheduled, other source running} x policy options, for EDF, FIFO, LSF, "
             "ILP, TetriSched-Gurobi, TetriSched-CPLEX, Z3",
        required=("decision_points", "feasible_points", "returned_plan_located",
                  "offered_tasks"))
    e1 = _e1props.main("C10", tier, seed, finish=False, extra_factory=EXTRA)
    combine_and_finish("C10", tier, seed, [("direct+E4", e4), ("E1-runs", e1)])


def replay(path):
    import json

    with open(path) as f:
        d = json.load(f)
    if d.get("engine") == "e1":
        return _e1props.replay("C10", path, extra_factory=EXTRA)
    return _e4props.replay("C10", path)
