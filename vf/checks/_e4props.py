"""Shared driver for the E4-decided properties (C10, C11, C12, C14)."""
import json

from .. import e4_instances as EI
from ..checklib import run_generic, generic_replay


def job(inst, want, max_points):
    from .. import bootstrap  # noqa: F401
    from .. import e4_explore as EX

    r = EX.explore(inst, want=tuple(want), max_points=max_points)
    out = []
    for v in r["violations"]:
        v = dict(v)
        v["case"] = inst
        v["policy"] = inst["policy"]
        v["opts_key"] = inst.get("tag", "").split("+", 1)[-1]
        v["progress"] = inst.get("tag", "//////").split("/")[3]
        out.append(v)
    broken = r.get("unbound")
    st = dict(r["stats"])
    if broken:
        st["unbound_plans"] = 1
    nontrivial = st.get("feasible_points_placing_a_child", 0) > 0 or \
        st.get("returned_placed", 0) > 0
    return {"states": r["points"], "transitions": r["solves"],
            "validated": r["validated"], "evaluations": max(r["points"], 1),
            "stats": st, "violations": out,
            "distinct": [hash(inst["tag"])] if nontrivial else [],
            "unbound": broken,
            "samples": [{"tag": inst["tag"], "returned_plan": r.get("returned_plan"),
                         "decision_points": r["points"], "feasible": r["feasible"]}]
            if r["points"] > 50 and hash(inst["tag"]) % 17 == 0 else []}


def confirm_job(inst, want, max_points):
    return job(inst, want, max_points)


def run(prop, tier, seed, instances, want=None, rule="", assumptions=(),
        required=("decision_points", "feasible_points", "returned_plan_located"),
        max_points=60000, finish=True, level="model_checking"):
    want = list(want or [prop])
    return run_generic(
        prop, tier, seed, instances, job, extra=(want, max_points), engine="e4",
        rule=rule, level=level,
        assumptions=list(assumptions) + [
            "states = decision points of the captured models (every task unplaced or "
            "at each (worker, strategy, start) within the horizon); transitions = "
            "feasibility evaluations of fixed points; validated = feasible points "
            "decoded by the scheduler's own read-back; the returned plan must be "
            "located among them",
            "the solver is only asked whether one fully fixed decision point is "
            "feasible (objective zeroed); CPLEX rows are evaluated arithmetically",
        ],
        required_stats=required, chunk=2,
        budget_s=280 if tier == "quick" else 900, confirm_job=confirm_job,
        finish=finish)


def replay(prop, path, want=None):
    with open(path) as f:
        d = json.load(f)
    if d.get("engine") == "e1":
        from . import _e1props

        return _e1props.replay(prop, path)
    return generic_replay(prop, path, confirm_job, extra=(list(want or [prop]), 60000), item_job=job)


del EI
