"""C08 -- the CSV trace and end-of-run counters tell the truth (engine E1 + the
trace monitor, see vf/trace_monitor.py)."""
from . import _e1props

EXTRA = ["vf.trace_monitor.TraceMonitor"]


def main(tier, seed):
    _e1props.main("C08", tier, seed, extra_factory=EXTRA)


def replay(path):
    return _e1props.replay("C08", path, extra_factory=EXTRA)
