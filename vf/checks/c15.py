"""C15 -- Clockwork batching: full, same-model, loaded, on-time batches only (engine
E1 on the S-cw slice with the Clockwork monitor, vf/cw_monitor.py)."""
from . import _e1props

EXTRA = ["vf.cw_monitor.ClockworkMonitor"]


def main(tier, seed):
    _e1props.main("C15", tier, seed, extra_factory=EXTRA)


def replay(path):
    return _e1props.replay("C15", path, extra_factory=EXTRA)
