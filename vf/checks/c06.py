"""C06 -- task lifecycle is a legal state machine; cancellation is closed downstream.

E1: the run monitor's automaton / dead-set rules on whole simulations (all slices of
_e1props, incl. the adversarial scheduler).
E2: breadth-first search over the operation histories of small real TaskGraphs (the
objects and transitions of C18's frontier search: release / schedule for now or later /
unschedule / start / finish+notify / cancel / tick) with a *reference automaton* kept
next to every task: after each operation the state of every real Task must be the
reference state, a task the operation killed (cancelled explicitly, on the branch a
conditional did not take, or starved of its inputs) must be CANCELLED and nothing
else may be."""
from . import _e1props, c18
from ..checklib import run_generic, generic_replay, combine_and_finish


def ref_apply(g, ref, op):
    """Update the reference (dict name -> dict(state, fallback, dead)) for one op that
    the real objects accepted.  States are names of TaskState members."""
    k = op[0]
    if k == "tick":
        return
    n = op[1]
    r = ref[n]
    if k == "rel":
        if r["state"] == "VIRTUAL":
            r["state"] = "RELEASED"
            r["fallback"] = "RELEASED"
        # a release that arrives while SCHEDULED leaves the state (and the state the
        # task would fall back to) alone
    elif k == "sched":
        if r["state"] != "SCHEDULED":
            r["fallback"] = r["state"]
        r["state"] = "SCHEDULED"
    elif k == "unsched":
        r["state"] = r["fallback"]
    elif k == "start":
        r["state"] = "RUNNING"
    elif k == "fin":
        r["state"] = "COMPLETED"
        if g.kw[n].get("conditional"):
            ch = list(g.children[n])
            positive = [c for c in ch if g.kw[c].get("probability", 1.0) > 0
                        and not ref[c]["dead"]]
            taken = positive[op[2] % len(positive)] if positive else None
            for c in ch:
                if c != taken:
                    ref[c]["dead"] = True
    elif k == "cancel":
        r["dead"] = True
    # closure: a task that can no longer receive its inputs
    changed = True
    while changed:
        changed = False
        for m in ref:
            if ref[m]["dead"] or not g.parents[m]:
                continue
            pd = [ref[p]["dead"] for p in g.parents[m]]
            if (all(pd) if g.kw[m].get("terminal") else any(pd)):
                ref[m]["dead"] = True
                changed = True


def judge(g, ref, bad):
    for n, t in g.t.items():
        st = t.state.name
        r = ref[n]
        if r["dead"] and r["state"] in ("VIRTUAL", "RELEASED", "SCHEDULED"):
            if st != "CANCELLED":
                bad("lifecycle.dead_not_cancelled",
                    f"{n} can no longer receive its inputs (or was cancelled) but is "
                    f"{st}")
        elif st != r["state"]:
            bad("lifecycle.wrong_state", f"{n} is {st}, the reference automaton says "
                                         f"{r['state']}")


def lifecycle_job(item, tier):
    from .. import bootstrap  # noqa: F401

    _k, gname, prefix, depth, cap = item[:5]
    shard_k, shard_m = (item[5], item[6]) if len(item) > 5 else (0, 1)
    prefix = tuple(tuple(o) for o in prefix)
    out = []
    stats = {"lifecycle_states": 0, "retractions": 0, "second_retractions": 0,
             "cancellations": 0, "ops_refused_by_object": 0,
             "refusals_that_changed_state": 0}

    def mkbad(hist):
        def bad(rule, msg):
            if len(out) < 20:
                out.append({"rule": rule, "msg": f"{gname} history {list(hist)}: {msg}",
                            "case": {"graph": gname, "history": [list(o) for o in hist],
                                     "lifecycle": True}})
        return bad

    def build(hist, bad=None):
        g = c18.G(gname)
        ref = {n: {"state": "VIRTUAL", "fallback": "VIRTUAL", "dead": False}
               for n in g.t}
        for op in hist:
            c18.apply(g, tuple(op), None)
            ref_apply(g, ref, tuple(op))
        return g, ref

    g, ref = build(prefix)
    judge(g, ref, mkbad(prefix))
    seen = {c18.canon(g)}
    frontier = [prefix]
    transitions = 0
    for d in range(len(prefix), depth):
        nxt = []
        for hist in frontier:
            g, _r = build(hist)
            for oi, op in enumerate(c18.enabled(g)):
                if d == len(prefix) and oi % shard_m != shard_k:
                    continue
                h2 = hist + (op,)
                bad = mkbad(h2)
                g2, r2 = build(hist)
                before = c18.canon(g2)
                try:
                    c18.apply(g2, op, None)
                except Exception:  # noqa: B902
                    stats["ops_refused_by_object"] += 1
                    if op[0] != "fin" and c18.canon(g2) != before:
                        # (`fin` is a composite of the harness: step, finish, notify --
                        # a notify that raises after the finish is not a refused call)
                        stats["refusals_that_changed_state"] += 1
                        bad("lifecycle.refusal_changed_state",
                            f"{op} was refused by the object but changed its state")
                    continue
                ref_apply(g2, r2, op)
                transitions += 1
                if op[0] == "unsched":
                    stats["retractions"] += 1
                    if sum(1 for o in h2 if o[0] == "unsched" and o[1] == op[1]) > 1:
                        stats["second_retractions"] += 1
                if op[0] == "cancel":
                    stats["cancellations"] += 1
                judge(g2, r2, bad)
                c = c18.canon(g2)
                if c in seen or len(seen) >= cap:
                    continue
                seen.add(c)
                nxt.append(h2)
        frontier = nxt
        if not frontier:
            break
    stats["lifecycle_states"] = len(seen)
    return {"states": len(seen), "transitions": transitions, "validated": transitions,
            "evaluations": transitions, "stats": stats, "violations": out,
            "distinct": [hash(c) for c in seen],
            "samples": [{"graph": gname, "prefix": [list(o) for o in prefix],
                         "depth": depth, "states": len(seen)}]}


def case_job(case, tier):
    from .. import bootstrap  # noqa: F401

    out = []
    hist = tuple(tuple(o) for o in case["history"])
    g = c18.G(case["graph"])
    ref = {n: {"state": "VIRTUAL", "fallback": "VIRTUAL", "dead": False} for n in g.t}

    def bad(rule, msg):
        out.append({"rule": rule, "msg": f"{case['graph']} history {list(hist)}: {msg}",
                    "case": case})
    for op in hist:
        c18.apply(g, op, None)
        ref_apply(g, ref, op)
    judge(g, ref, bad)
    return {"violations": out}


def job(item, tier):
    if item[0] == "bfs":
        return lifecycle_job(item, tier)
    return case_job(item[1], tier)


def confirm_job(case, tier):
    return case_job(case, tier)


def items(tier):
    # same graphs, prefixes, depths and shards as C18's frontier search
    return list(c18.items(tier))


def main(tier, seed):
    e2 = run_generic(
        "C06", tier, seed, items(tier), job, extra=(tier,), engine="e2", finish=False,
        rule="BFS over the operation histories of 6 real TaskGraphs (chain, fork, join, "
             "diamond, skewed join with a tail, conditional+join) from the initial state "
             "and from 'all sources running'; reference automaton per task (state, state "
             "it would fall back to, dead-set closure) compared with every real Task "
             "after every operation; operations the object refuses must not change it",
        assumptions=["depth %d from the initial state (one less for the two 5-node "
                     "graphs), %d operations beyond 'all sources running'"
                     % ((6, 4) if tier == "quick" else (8, 6))],
        required_stats=("lifecycle_states", "retractions", "second_retractions",
                        "cancellations"),
        chunk=1, budget_s=200 if tier == "quick" else 900, confirm_job=confirm_job)
    e1 = _e1props.main("C06", tier, seed, finish=False)
    combine_and_finish("C06", tier, seed, [("E2-lifecycle", e2), ("E1-runs", e1)])


def replay(path):
    import json

    with open(path) as f:
        d = json.load(f)
    if d.get("engine") == "e1":
        return _e1props.replay("C06", path)
    return generic_replay("C06", path, confirm_job, extra=("quick",), item_job=job)
