"""C19 -- workload and cluster descriptions are instantiated faithfully (engine E3, plus
E1 for the closed-loop in-flight bound).

Every description of a small grammar (graphs x SLO patterns x strategy menus x release
policies x deadline variance/bounds x override flags x JSON/YAML) is loaded through
the real WorkloadLoader / WorkerLoader with real parsed flags; the resulting objects
are compared with a reference interpreter of the description written from the README
and the property statement.  Deadline fuzz answers are owned by the answer tape
(low / high / middle)."""
import itertools
import json
import os

from ..checklib import run_generic, generic_replay, combine_and_finish
from .. import worlds as W

SHAPES = {
    "one": (["A"], []),
    "chain2": (["A", "B"], [(0, 1)]),
    "chain3": (["A", "B", "C"], [(0, 1), (1, 2)]),
    "fork": (["A", "B", "C"], [(0, 1), (0, 2)]),
    "join": (["A", "B", "C"], [(0, 2), (1, 2)]),
    "diamond": (["A", "B", "C", "D"], [(0, 1), (0, 2), (1, 3), (2, 3)]),
    "skip": (["A", "B", "C"], [(0, 1), (0, 2), (2, 1)]),
}
# slowest runtimes differ so that the critical path is unique in most shapes
RUNTIMES = {"A": (2, 1), "B": (3, 2), "C": (1, 4), "D": (2, 2)}
SLO_PATTERNS = ("none", "first", "last", "all")
SLO = {"A": 10, "B": 30, "C": 20, "D": 40}


def make_description(shape, slo_pat, release, variance, strat_variant):
    names, edges = SHAPES[shape]
    profiles, nodes = [], []
    for k, n in enumerate(names):
        r1, r2 = RUNTIMES[n]
        if strat_variant == 0:
            ss = [W.strat(r1, CPU=1)]
        elif strat_variant == 1:
            ss = [W.strat(r1, CPU=1), W.strat(r2, GPU=1, CPU=1)]
            ss[1]["batch_size"] = 2
        elif strat_variant == 3:
            # optional keys left out of *later* entries of a menu: each entry falls
            # back to the documented default (batch_size 1) on its own
            first = W.strat(r1, GPU=1)
            first["batch_size"] = 3
            second = W.strat(r2, CPU=1)
            del second["batch_size"]
            third = W.strat(r1 + r2, CPU=2)
            third["batch_size"] = 2
            fourth = W.strat(r2 + 1, CPU=1, GPU=1)
            del fourth["batch_size"]
            ss = [first, second, third, fourth]
        else:
            ss = [W.strat(r1, GPU__g0=1), W.strat(r2, CPU=2)]
        p = {"name": "p_" + n, "execution_strategies": ss}
        if strat_variant == 1 and k == 0:
            p["loading_strategies"] = [W.strat(4, GPU=1)]
        profiles.append(p)
        nd = {"name": n, "work_profile": "p_" + n,
              "children": [names[j] for (i, j) in edges if i == k]}
        if slo_pat == "all" or (slo_pat == "first" and k == 0) or \
                (slo_pat == "last" and k == len(names) - 1):
            nd["slo"] = SLO[n]
        nodes.append(nd)
    g = {"name": "G", "graph": nodes}
    g.update(release)
    if variance is not None:
        g["deadline_variance"] = list(variance)
    return {"profiles": profiles, "graphs": [g]}


RELEASES = [
    {"release_policy": "fixed", "period": 2, "invocations": 3},
    {"release_policy": "fixed", "period": 0, "invocations": 2, "start": 5},
    {"release_policy": "fixed", "period": 3, "invocations": 1, "start": 1},
    {"release_policy": "periodic", "period": 3},
    {"release_policy": "periodic", "period": 2, "start": 1},
    {"release_policy": "poisson", "rate": 0.5, "invocations": 3},
    {"release_policy": "poisson", "rate": 0.25, "invocations": 1, "start": 4},
    {"release_policy": "gamma", "rate": 0.5, "coefficient": 2, "invocations": 3},
    {"release_policy": "gamma", "rate": 0.25, "coefficient": 1, "invocations": 2,
     "start": 3},
    {"release_policy": "closed_loop", "concurrency": 2, "invocations": 3},
    {"release_policy": "closed_loop", "concurrency": 1, "invocations": 2, "start": 2},
    {"release_policy": "closed_loop", "concurrency": 3, "invocations": 2},
]
VARIANCES = [None, (0, 0), (50, 100), (200, 200)]
FLAGSETS = [
    {},
    {"min_deadline": 3},
    {"max_deadline": 2},
    {"override_num_invocation": 2},
    {"override_arrival_period": 4},
    {"override_slo": 7},
    {"replication_factor": 2},
    {"replication_factor": 2, "unique_work_profiles": True},
    {"override_poisson_arrival_rate": 0.2, "override_gamma_coefficient": 3.0},
]
HORIZON = 8  # loop_timeout used for periodic policies


# ------------------------------------------------------------------------ reference
def ref_paths(names, edges):
    ch = {n: [] for n in names}
    par = {n: [] for n in names}
    for i, j in edges:
        ch[names[i]].append(names[j])
        par[names[j]].append(names[i])
    out = []

    def rec(p):
        if not ch[p[-1]]:
            out.append(list(p))
            return
        for c in ch[p[-1]]:
            rec(p + [c])
    for n in names:
        if not par[n]:
            rec([n])
    return out, par, ch


def reference(desc, flags, shape):
    """What the description promises."""
    names, edges = SHAPES[shape]
    g = desc["graphs"][0]
    prof = {p["name"]: p for p in desc["profiles"]}
    paths, par, ch = ref_paths(names, edges)
    slowest = {}
    for nd in g["graph"]:
        ss = prof[nd["work_profile"]]["execution_strategies"]
        slowest[nd["name"]] = max(s["runtime"] for s in ss)
    slo = {}
    for nd in g["graph"]:
        if flags.get("override_slo", -1) > 0:
            slo[nd["name"]] = flags["override_slo"]
        elif "slo" in nd:
            slo[nd["name"]] = nd["slo"]
    best = max(sum(slowest[x] for x in p) for p in paths)
    crit = [p for p in paths if sum(slowest[x] for x in p) == best]
    # admissible L: SLO where declared, else slowest runtime, along a critical path
    Ls = sorted(set(sum(slo.get(x, slowest[x]) for x in p) for p in crit))
    pol = g["release_policy"]
    start = g.get("start", 0)
    inv = flags.get("override_num_invocation") or g.get("invocations")
    period = flags.get("override_arrival_period") or g.get("period")
    rel = None
    n_rel = None
    if pol == "fixed":
        rel = [start + i * period for i in range(inv)]
    elif pol == "periodic":
        rel = list(range(start, HORIZON, period))
    elif pol in ("poisson", "gamma"):
        n_rel = g["invocations"]  # the override flag does not apply to these (README)
    elif pol == "closed_loop":
        rel = [start] * min(g["concurrency"], g["invocations"])
    var = tuple(g["deadline_variance"]) if "deadline_variance" in g else (0, 0)
    lo_b, hi_b = flags.get("min_deadline", 0), flags.get("max_deadline", 2 ** 63 - 1)
    return {"names": names, "edges": [(names[i], names[j]) for i, j in edges],
            "slowest": slowest, "Ls": Ls, "release": rel, "n_release": n_rel,
            "start": start, "variance": var, "bounds": (lo_b, hi_b), "slo": slo,
            "profiles": prof, "policy": pol}


def clip(x, lo, hi):
    return max(lo, min(hi, x))


def check_case(case, out, stats):
    """Load one description with the real loaders and compare with the reference."""
    import random

    from .. import bootstrap as B
    from .. import harness as H
    from ..tape import Tape, TapeUniform
    from utils import EventTime
    from data import WorkloadLoader

    desc = make_description(case["shape"], case["slo"], RELEASES[case["release"]],
                            VARIANCES[case["variance"]], case["strategies"])
    flags = dict(FLAGSETS[case["flagset"]])
    ref = reference(desc, flags, case["shape"])
    d = H.scratch_dir()
    world = {"workload": desc, "cluster": W.CLUSTERS_CPU["1x1"], "fmt": case["fmt"],
             "flags": dict(flags, loop_timeout=HORIZON if ref["policy"] == "periodic"
                           else 10 ** 6, scheduler_runtime=0, random_seed=case["seed"])}
    wl_path, cl_path = H.write_world_files(world, d, stem="c19")
    argv = H.world_argv(world, wl_path, cl_path)

    def bad(rule, msg, **kw):
        if len(out) < 40:
            c = dict(case)
            v = {"rule": rule, "msg": f"{case}: {msg}", "case": c,
                 "release_policy": ref["policy"], "slo_pattern": case["slo"],
                 "flagset": case["flagset"]}
            v.update(kw)
            out.append(v)

    results = []
    for answer in (0, 1, 2):
        B.parse_flags(argv)
        random.seed(case["seed"])
        tape = Tape([answer] * 64)
        saved = EventTime._rng
        EventTime._rng = TapeUniform(tape)
        try:
            loader = WorkloadLoader(path=wl_path, _flags=B.FLAGS)
        except Exception as e:  # noqa: B902
            bad("loader.raises", f"WorkloadLoader raised {type(e).__name__}: "
                                 f"{str(e)[:120]}", exc=type(e).__name__)
            return
        finally:
            EventTime._rng = saved
        results.append((answer, loader))
        stats["loads"] += 1
    for answer, loader in results:
        _compare(case, ref, flags, loader, answer, bad, stats,
                 structure=(answer == 0))


def _compare(case, ref, flags, loader, answer, bad, stats, structure=True):
    from utils import EventTime

    wl = loader.workload
    rep = flags.get("replication_factor", 1)
    gnames = ["G"] if rep == 1 else [f"G_{i}" for i in range(1, rep + 1)]
    if sorted(wl.job_graphs) != sorted(gnames):
        bad("graphs.names", f"job graphs {sorted(wl.job_graphs)}, expected {gnames}")
        return
    profiles_seen = {}
    for gn in gnames:
        jg = wl.get_job_graph(gn)
        jobs = {j.name: j for j in jg.get_nodes()}
        if structure:
            if sorted(jobs) != sorted(ref["names"]):
                bad("graph.nodes", f"{gn}: jobs {sorted(jobs)}")
                continue
            edges = sorted((a.name, b.name) for a, b in jg.get_edges())
            if edges != sorted(ref["edges"]):
                bad("graph.edges", f"{gn}: edges {edges}, described "
                                   f"{sorted(ref['edges'])}")
            for n, j in jobs.items():
                pd = ref["profiles"]["p_" + n]
                got = [(s.runtime.time, s.batch_size,
                        sorted((r.name, r.id, q)
                               for r, q in s.resources._resource_vector.items()))
                       for s in j.execution_strategies]
                exp = [(s["runtime"], s.get("batch_size", 1),
                        sorted((k.split(":")[0], k.split(":")[1], q)
                               for k, q in s["resource_requirements"].items()))
                       for s in pd["execution_strategies"]]
                if got != exp:
                    bad("profile.strategies", f"{gn}.{n}: {got} != described {exp}")
                gl = [(s.runtime.time, s.batch_size) for s in j.profile.loading_strategies]
                el = [(s["runtime"], s.get("batch_size", 1))
                      for s in pd.get("loading_strategies", [])]
                if gl != el:
                    bad("profile.loading", f"{gn}.{n}: loading {gl} != {el}")
                es = ref["slo"].get(n)
                gs = None if j.slo == EventTime.invalid() else j.slo.time
                if gs != es:
                    bad("job.slo", f"{gn}.{n}: slo {gs}, described {es}",
                        node_index=ref["names"].index(n))
                profiles_seen.setdefault(n, []).append(id(j.profile))
        # task graphs of this job graph
        tgs = [tg for name, tg in wl.task_graphs.items()
               if name.rsplit("@", 1)[0] == gn]
        tgs.sort(key=lambda t: int(t.name.rsplit("@", 1)[1]))
        rels = [tg.release_time.time for tg in tgs]
        if ref["release"] is not None:
            if rels != ref["release"]:
                bad("release.times", f"{gn}: releases {rels}, declared {ref['release']}")
        else:
            stats["stochastic_release_sets"] += 1
            if len(rels) != ref["n_release"]:
                bad("release.count", f"{gn}: {len(rels)} releases, declared "
                                     f"{ref['n_release']}")
            if rels and rels[0] != ref["start"]:
                bad("release.first", f"{gn}: first release {rels[0]}, start "
                                     f"{ref['start']}")
            if any(b < a for a, b in zip(rels, rels[1:])):
                bad("release.decreasing", f"{gn}: releases {rels}")
        ids = set()
        for tg in tgs:
            tasks = {t.name: t for t in tg.get_nodes()}
            if sorted(tasks) != sorted(ref["names"]):
                bad("instance.nodes", f"{tg.name}: tasks {sorted(tasks)}")
                continue
            e = sorted((a.name, b.name) for a, b in tg.get_edges())
            if e != sorted(ref["edges"]):
                bad("instance.edges", f"{tg.name}: edges {e}")
            for t in tasks.values():
                if t.id in ids:
                    bad("instance.shared_task", f"{tg.name}: task id reused")
                ids.add(t.id)
                src = not any(t.name == b for _a, b in ref["edges"])
                exp_rel = tg.release_time.time if src else -1
                if t.release_time.time != exp_rel:
                    bad("instance.release", f"{tg.name}.{t.name}: release "
                                            f"{t.release_time.time}, expected {exp_rel}")
            # deadline
            r = tg.release_time.time
            lo_v, hi_v = ref["variance"]
            lo_b, hi_b = ref["bounds"]
            dls = set(t.deadline.time for t in tasks.values())
            if len(dls) != 1:
                bad("deadline.not_uniform", f"{tg.name}: deadlines {sorted(dls)}")
                continue
            dl = dls.pop()
            ok = False
            exps = []
            for L in ref["Ls"]:
                xs = (r + L + clip(L * lo_v / 100.0, lo_b, hi_b),
                      r + L + clip(L * hi_v / 100.0, lo_b, hi_b),
                      r + L + clip((L * lo_v / 100.0 + L * hi_v / 100.0) / 2,
                                   lo_b, hi_b))
                exps.append(xs)
                want = xs[answer] if lo_v != hi_v else xs[0]
                # integer-microsecond rounding (< 1 us) is the only tolerance
                if abs(dl - want) <= 0.5:
                    ok = True
            if not ok:
                bad("deadline.value",
                    f"{tg.name}: release {r}, deadline {dl}; described L in {ref['Ls']} "
                    f"variance {ref['variance']} bounds {ref['bounds']} answer "
                    f"{('low', 'high', 'middle')[answer]} admits {exps}")
            stats["deadlines_checked"] += 1
    if structure and rep > 1:
        uniq = flags.get("unique_work_profiles", False)
        for n, ids_ in profiles_seen.items():
            shared = len(set(ids_)) == 1
            if shared != bool(uniq):
                bad("replication.profiles",
                    f"replication x{rep} unique_work_profiles={uniq}: profile of {n} "
                    f"shared={shared}")


def cluster_cases():
    out = []
    menu = [
        [dict(CPU=1)], [dict(CPU=2, GPU=1)], [dict(CPU=1), dict(GPU__g0=2, CPU=3)],
        [dict(CPU__c0=1, CPU__c1=2)],
    ]
    for a in menu:
        out.append(W.cluster(a))
        for b in menu[:2]:
            out.append(W.cluster(a, b))
    return out


def check_cluster(idx, fmt, out, stats):
    from .. import bootstrap as B
    from .. import harness as H
    from data import WorkerLoader

    cl = cluster_cases()[idx]
    d = H.scratch_dir()
    world = {"workload": {"profiles": [], "graphs": []}, "cluster": cl, "fmt": fmt,
             "flags": {}}
    _wl, cl_path = H.write_world_files(world, d, stem="c19c")
    B.parse_flags(["--scheduler_runtime=0"])
    try:
        pools = WorkerLoader(worker_profile_path=cl_path, _flags=B.FLAGS) \
            .get_worker_pools()
    except Exception as e:  # noqa: B902
        out.append({"rule": "cluster.loader_raises", "msg": f"cluster {idx} {fmt}: {e!r}",
                    "case": {"cluster": idx, "fmt": fmt}})
        return
    got = []
    for p in pools.worker_pools:
        ws = []
        for w in p.workers:
            rs = sorted((r.name, r.id if len(r.id) < 10 else None, q)
                        for r, q in w.resources.resources)
            ws.append((w.name, rs))
        got.append((p.name, ws))
    exp = []
    for p in cl:
        ws = []
        for w in p["workers"]:
            rs = []
            for r in w["resources"]:
                parts = r["name"].split(":")
                rs.append((parts[0], parts[1] if len(parts) > 1 else None,
                           r["quantity"]))
            ws.append((w["name"], sorted(rs, key=lambda x: (x[0], str(x[1]), x[2]))))
        exp.append((p["name"], ws))
    got = [(pn, [(wn, sorted(rs, key=lambda x: (x[0], str(x[1]), x[2])))
                 for wn, rs in ws]) for pn, ws in got]
    if got != exp:
        out.append({"rule": "cluster.mismatch",
                    "msg": f"cluster {idx} {fmt}: loaded {got}, described {exp}",
                    "case": {"cluster": idx, "fmt": fmt}})
    # ids of un-named resources are fresh and distinct
    ids = [r.id for p in pools.worker_pools for w in p.workers
           for r, _q in w.resources.resources]
    if len(set(ids)) != len(ids):
        out.append({"rule": "cluster.duplicate_ids", "msg": f"cluster {idx}: {ids}",
                    "case": {"cluster": idx, "fmt": fmt}})
    stats["clusters_loaded"] += 1


def job(item, tier, seed):
    from .. import bootstrap  # noqa: F401

    out = []
    stats = {"loads": 0, "deadlines_checked": 0, "stochastic_release_sets": 0,
             "clusters_loaded": 0}
    n = 0
    if item[0] == "case":
        c = item[1]
        if "cluster" in c:
            check_cluster(c["cluster"], c["fmt"], out, stats)
        else:
            check_case(c, out, stats)
        return {"violations": out}
    if item[0] == "clusters":
        for idx in range(len(cluster_cases())):
            for fmt in ("json", "yaml"):
                check_cluster(idx, fmt, out, stats)
                n += 1
        return {"states": n, "transitions": n, "validated": n, "evaluations": n,
                "stats": stats, "violations": out, "distinct": list(range(n)),
                "samples": []}
    _k, shape, rel = item
    distinct = []
    last = None
    for slo, var, sv, fs, fmt in itertools.product(
            SLO_PATTERNS, range(len(VARIANCES)), (0, 1, 2, 3), range(len(FLAGSETS)),
            ("json", "yaml")):
        if tier == "quick":
            # the rendering and the strategy menu are orthogonal to the rest: pair them
            if (fmt == "yaml") != (sv in (1, 3)):
                continue
            if sv == 3 and (slo != "none" or fs not in (0, 1)):
                continue
            if fs >= 3 and var not in (0, 2):
                continue
        case = {"shape": shape, "slo": slo, "release": rel, "variance": var,
                "strategies": sv, "flagset": fs, "fmt": fmt, "seed": seed}
        check_case(case, out, stats)
        last = case
        n += 1
        distinct.append(hash((shape, rel, slo, var, sv, fs, fmt)))
    return {"states": n, "transitions": stats["loads"], "validated": stats["loads"],
            "evaluations": n, "stats": stats, "violations": out, "distinct": distinct,
            "samples": [last] if shape == "diamond" and rel == 0 else []}


def confirm_job(case, tier, seed):
    return job(("case", case), tier, seed)


def items(tier):
    it = [("clusters",)]
    for shape in SHAPES:
        for rel in range(len(RELEASES)):
            it.append(("desc", shape, rel))
    return it


def main(tier, seed):
    e3 = run_generic(
        "C19", tier, seed, items(tier), job, extra=(tier, seed), engine="e3",
        finish=False,
        rule="description grammar: 7 graph shapes x 4 SLO patterns x 3 strategy menus "
             "(any / specific ids, batch sizes, loading strategies) x 12 release policy "
             "settings x 4 deadline variances x 9 flag sets (bounds, overrides, "
             "replication) x JSON/YAML (quick: rendering paired with the strategy menu); "
             "each loaded under the low / high / middle fuzz answer",
        assumptions=["deadline bounds (min/max_deadline) are read as bounds on the "
                     "added slack, as the code documents (`bounds to fuzz within`)",
                     "Poisson/Gamma: only count, start and monotonicity are promised"],
        required_stats=("loads", "deadlines_checked", "stochastic_release_sets",
                        "clusters_loaded"),
        chunk=2, budget_s=200 if tier == "quick" else 900, confirm_job=confirm_job)
    from . import _e1props

    e1 = _e1props.main("C19", tier, seed, finish=False,
                       extra_factory=["vf.checks.c19.ClosedLoopMonitor"])
    combine_and_finish("C19", tier, seed, [("E3-descriptions", e3),
                                           ("E1-closed-loop", e1)])


def replay(path):
    with open(path) as f:
        d = json.load(f)
    if d.get("engine") == "e1":
        from . import _e1props

        return _e1props.replay("C19", path,
                               extra_factory=["vf.checks.c19.ClosedLoopMonitor"])
    return generic_replay("C19", path, confirm_job, extra=("quick", 0), item_job=job)


# ------------------------------------------------------------------ closed loop (E1)
class ClosedLoopMonitor(object):
    """In-flight graph instances never exceed the declared concurrency; N in total."""

    def __init__(self, mon, world):
        from .. import harness as H  # noqa: F401

        self.mon = mon
        self.world = world
        self.violations = []
        self.stats = {}
        self.conc = {}
        self.total = {}
        for g in world["workload"]["graphs"]:
            if g.get("release_policy") == "closed_loop":
                self.conc[g["name"]] = g["concurrency"]
                self.total[g["name"]] = g["invocations"]
        self.max_inflight = {}

    def __getattr__(self, name):
        if name.startswith("on_"):
            return lambda *a, **k: None
        raise AttributeError(name)

    def on_event_post(self, sim, ev, ret):
        if not self.conc:
            return
        from ..monitor import DONE, CAN

        mon = self.mon
        now = mon.clock
        for gname, conc in self.conc.items():
            inflight = 0
            for tg in sim._workload.task_graphs.values():
                if tg.name.rsplit("@", 1)[0] != gname:
                    continue
                g = mon.desc.graph_of(tg.name)
                srcs = [mon.tasks.get((tg.name, s)) for s in g.sources()]
                started = any(s is not None and s.release_t is not None
                              and s.release_t <= now for s in srcs) or \
                    tg.release_time.time <= now
                sinks = [mon.tasks.get((tg.name, s)) for s in g.sinks()]
                done = all(s is not None and s.state == DONE for s in sinks)
                dead = mon.dead_set(tg.name)
                cancelled = any(s is not None and (s.state == CAN or s.key[1] in dead)
                                for s in sinks)
                if started and not done and not cancelled:
                    inflight += 1
            self.max_inflight[gname] = max(self.max_inflight.get(gname, 0), inflight)
            if inflight > conc and len(self.violations) < 3:
                self.violations.append({
                    "prop": "C19", "rule": "closed_loop.concurrency",
                    "msg": f"{inflight} instances of {gname} in flight at {now}, "
                           f"declared concurrency {conc}", "t": now,
                    "event_index": mon.events})

    def on_end(self, sim, outcome):
        if not self.conc or outcome.status != "ok":
            return
        self.stats["closed_loop_runs"] = 1
        for gname, n in self.total.items():
            have = sum(1 for tg in sim._workload.task_graphs.values()
                       if tg.name.rsplit("@", 1)[0] == gname)
            if have > n:
                self.violations.append({
                    "prop": "C19", "rule": "closed_loop.too_many",
                    "msg": f"{have} instances of {gname} were released, declared {n}",
                    "t": self.mon.clock, "event_index": self.mon.events})
            ended_early = self.mon.stats.get("ended_by_exhaustion")
            if have < n and ended_early and self.mon.policy in ("EDF", "FIFO", "LSF") \
                    and not self.mon.enforce:
                self.violations.append({
                    "prop": "C19", "rule": "closed_loop.too_few",
                    "msg": f"only {have} of {n} instances of {gname} were released in a "
                           f"work-conserving run that ended by exhaustion",
                    "t": self.mon.clock, "event_index": self.mon.events})
            if self.max_inflight.get(gname, 0) >= min(self.conc[gname], n):
                self.stats["runs_reaching_full_concurrency"] = 1
        # every instance -- the initial batch and the ones released when an earlier one
        # finished -- gets deadline = release + L + clamp(L * v, min_deadline, max_deadline)
        # (only judged when the declared variance is a single value: no fuzz answer)
        from ..monitor import us

        desc = self.mon.desc
        fl = self.world.get("flags", {})
        lo_b = int(fl.get("min_deadline", 0))
        hi_b = int(fl.get("max_deadline", 2 ** 63 - 1))
        for g in self.world["workload"]["graphs"]:
            if g.get("release_policy") != "closed_loop":
                continue
            var = g.get("deadline_variance")
            if not var or var[0] != var[1]:
                continue
            gd = desc.graph_of(g["name"] + "@0")
            if gd is None or any(nd.conditional or nd.slo is not None
                                 for nd in gd.nodes.values()):
                continue
            memo = {}

            def longest(n):
                if n not in memo:
                    rt = max(sd.runtime for sd in
                             desc.profiles[gd.nodes[n].profile].strategies)
                    memo[n] = rt + max([longest(c) for c in gd.nodes[n].children] or [0])
                return memo[n]

            L = max(longest(n) for n in gd.sources())
            slack = min(max(L * abs(var[0]) / 100.0, lo_b), hi_b)
            for tg in sim._workload.task_graphs.values():
                if tg.name.rsplit("@", 1)[0] != g["name"]:
                    continue
                stretch = us(tg.deadline) - us(tg.release_time)
                self.stats["closed_loop_deadlines_judged"] = \
                    self.stats.get("closed_loop_deadlines_judged", 0) + 1
                if abs(stretch - (L + slack)) > 0.5 and len(self.violations) < 3:
                    self.violations.append({
                        "prop": "C19", "rule": "closed_loop.deadline",
                        "msg": f"{tg.name}: deadline - release = {stretch}, described "
                               f"critical path {L} + slack {slack} (variance {var}, "
                               f"bounds ({lo_b}, {hi_b}))",
                        "t": self.mon.clock, "event_index": self.mon.events})
