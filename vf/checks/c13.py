"""C13 -- EDF, FIFO and LSF honour their priority order (engine E3).

Every task set of size <= 3 (thorough: 4 on a reduced menu) x priority ranks (ties
included) x strategy lists x partially occupied single-worker pools is handed to the
real schedule() of each greedy policy; the answer is judged by an independent fit
check on plain dicts."""
import itertools

from ..checklib import run_generic, generic_replay

NOW = 5
# strategy lists: each strategy = (runtime, {resource name: quantity})
S = {
    "c1": (2, {"CPU": 1}), "c2": (2, {"CPU": 2}), "g1": (1, {"GPU": 1}),
    "cg": (3, {"CPU": 1, "GPU": 1}), "c1s": (3, {"CPU": 1}),
    # a zero-quantity entry next to a real one (legal in workload files): needs no GPU
    "c1z": (2, {"CPU": 1, "GPU": 0}),
}
STRAT_LISTS = [
    ("c1",), ("c2",), ("g1",), ("cg",),
    ("c2", "c1s"), ("g1", "c1s"), ("cg", "c1"), ("c1", "g1"), ("c2", "g1"),
    ("g1", "c2"), ("c1z",),
]
# pools: list of (capacity dict, blocker demand dict or None)
POOLSETS = [
    [({"CPU": 2, "GPU": 1}, None)],
    [({"CPU": 1}, None)],
    [({"CPU": 2, "GPU": 1}, {"CPU": 1})],
    [({"CPU": 1}, None), ({"CPU": 1, "GPU": 1}, None)],
    [({"CPU": 2}, {"CPU": 1}), ({"GPU": 1}, None)],
    [({"CPU": 2}, None), ({"CPU": 2, "GPU": 1}, {"CPU": 1, "GPU": 1})],
    # pools with several workers (a pool entry that is a list = its workers): the
    # policy names a pool, the pool picks the worker
    [[({"CPU": 2}, None), ({"GPU": 1}, None)]],
    [[({"CPU": 1}, None), ({"CPU": 2, "GPU": 1}, {"CPU": 1})]],
]


def workers_of(pool):
    return pool if isinstance(pool, list) else [pool]
POLICIES = ("EDF", "FIFO", "LSF")


def build(case):
    """case = {policy, poolset, tasks: [(rank, strat list index)]} -> real objects."""
    import random

    from utils import EventTime
    from workers import Worker, WorkerPool, WorkerPools
    from workload import (ExecutionStrategies, ExecutionStrategy, Job, Resource,
                          Resources, Task, TaskGraph, Workload, WorkProfile)
    from schedulers import EDFScheduler, FIFOScheduler, LSFScheduler

    random.seed(case.get("seed", 0))
    US = EventTime.Unit.US

    def res(d):
        return Resources({Resource(n, "any"): q for n, q in d.items()})

    pools = []
    blockers = []
    for pi, pool in enumerate(POOLSETS[case["poolset"]]):
        ws = [Worker(f"W{pi}_{wi}", Resources({Resource(n): q for n, q in cap.items()}))
              for wi, (cap, _blk) in enumerate(workers_of(pool))]
        p = WorkerPool(f"P{pi}", workers=ws)
        pools.append(p)
        for wi, (_cap, blk) in enumerate(workers_of(pool)):
            if blk:
                bs = ExecutionStrategy(res(blk), 1, EventTime(50, US))
                bj = Job(name=f"blk{pi}_{wi}", profile=WorkProfile(
                    f"pb{pi}_{wi}", ExecutionStrategies([bs])))
                bt = Task(name=f"blk{pi}_{wi}", task_graph="B", job=bj,
                          deadline=EventTime(100, US), release_time=EventTime(0, US))
                bt.release(EventTime(0, US))
                assert p.place_task(bt, execution_strategy=bs, worker_id=ws[wi].id)
                blockers.append(bt)
    wps = WorkerPools(pools)
    tasks = {}
    names = case.get("names") or ["Ta", "Tb", "Tc", "Td"]
    for k, spec in enumerate(case["tasks"]):
        rank, sl = spec[0], spec[1]
        ran = spec[2] if len(spec) > 2 else 0
        strategies = ExecutionStrategies([
            ExecutionStrategy(res(S[s][1]), 1, EventTime(S[s][0], US))
            for s in STRAT_LISTS[sl]])
        # remaining time: a task that already executed `ran` us of its slowest
        # strategy and was preempted has that much less left
        slowest = max(S[s][0] for s in STRAT_LISTS[sl]) - ran
        pol = case["policy"]
        # fields chosen so that the policy's priority key equals `rank`
        if pol == "EDF":
            deadline, release = 20 + rank, 0
        elif pol == "FIFO":
            deadline, release = 30, rank - 1
        else:  # LSF: slack = deadline - now - slowest runtime
            deadline, release = NOW + slowest + rank, 0
        job = Job(name=names[k], profile=WorkProfile("p" + names[k], strategies))
        t = Task(name=names[k], task_graph="G", job=job,
                 deadline=EventTime(deadline, US), release_time=EventTime(release, US))
        t.release(EventTime(release, US))
        if ran:
            # execute it for `ran` us on a scratch pool (not part of the cluster handed
            # to the policy), then preempt it: PREEMPTED tasks are schedulable again
            from workload import Placement
            si = max(range(len(STRAT_LISTS[sl])), key=lambda i: S[STRAT_LISTS[sl][i]][0])
            es = list(strategies)[si]
            sw = Worker("scratchW", Resources({Resource("CPU"): 4, Resource("GPU"): 4}))
            sp = WorkerPool("scratch", workers=[sw])
            t0 = EventTime(NOW - ran, US)
            t.schedule(t0, Placement.create_task_placement(
                task=t, placement_time=t0, worker_pool_id=sp.id, execution_strategy=es))
            assert sp.place_task(t, execution_strategy=es)
            t.start(t0)
            assert sp.step(t0, EventTime(ran, US)) == []
            t.preempt(EventTime(NOW, US))
            sp.remove_task(EventTime(NOW, US), t)
            assert t.remaining_time == EventTime(slowest, US), t.remaining_time
        tasks[names[k]] = t
    tg = TaskGraph(name="G", tasks={t: [] for t in tasks.values()})
    wl = Workload.from_task_graphs({"G": tg})
    cls = {"EDF": EDFScheduler, "FIFO": FIFOScheduler, "LSF": LSFScheduler}[pol]
    sched = cls(runtime=EventTime.zero())
    return sched, wl, wps, tasks, pools


def judge(case, out, stats):
    from utils import EventTime

    sched, wl, wps, tasks, pools = build(case)
    names = list(tasks)
    pl = sched.schedule(EventTime(NOW, EventTime.Unit.US), wl, wps)
    caps = []  # per pool: list of free dicts, one per worker
    for pool in POOLSETS[case["poolset"]]:
        fr = []
        for cap, blk in workers_of(pool):
            c = dict(cap)
            for n, q in (blk or {}).items():
                c[n] -= q
            fr.append(c)
        caps.append(fr)
    pool_index = {p.id: i for i, p in enumerate(pools)}
    placed = {}
    for p in pl:
        t = p.task
        if p.is_placed():
            strat = None
            for si, s in enumerate(t.available_execution_strategies):
                if s is p.execution_strategy:
                    strat = STRAT_LISTS[case["tasks"][names.index(t.name)][1]][si]
            if strat is None:
                out.append(mk("placement.foreign_strategy", case,
                              f"{t.name} placed with a strategy that is not its own"))
                continue
            if p.worker_pool_id not in pool_index:
                out.append(mk("placement.unknown_pool", case, f"{t.name}"))
                continue
            placed[t.name] = (pool_index[p.worker_pool_id], strat)
    rank = {names[k]: case["tasks"][k][0] for k in range(len(names))}
    if any(len(c) > 2 and c[2] for c in case["tasks"]):
        stats["calls_with_a_partially_executed_task"] = \
            stats.get("calls_with_a_partially_executed_task", 0) + 1
    answered = set(p.task.name for p in pl)
    for n in names:
        if n not in answered:
            out.append(mk("answer.missing", case, f"{n} got no decision"))
    # joint feasibility of what was placed: some assignment of the placed tasks to
    # workers of the pools they were answered with must respect every worker
    if not list(assignments(caps, placed, list(placed))):
        out.append(mk("placed.exceeds_capacity", case,
                      f"no assignment of the placed tasks {placed} to the workers of "
                      f"their pools (free: {caps}) respects capacity"))
    stats["schedule_calls"] += 1
    if len(placed) < len(names):
        stats["calls_with_unplaced"] += 1
    if len(set(rank.values())) < len(rank):
        stats["calls_with_ties"] += 1
    # priority rule
    for U in names:
        if U in placed:
            continue
        # the policy only names pools; whichever workers the higher-or-equal priority
        # tasks really occupy, U must not fit anywhere: flag only if U fits under
        # *every* capacity-respecting assignment of those tasks to workers
        higher = [n for n in placed if rank[n] <= rank[U]]
        sl = STRAT_LISTS[case["tasks"][names.index(U)][1]]
        fits_always, witness = True, None
        some = False
        for free in assignments(caps, placed, higher):
            some = True
            w = None
            for s in sl:
                for pi, fr in enumerate(free):
                    for wi, f in enumerate(fr):
                        if w is None and all(f.get(r, 0) >= q
                                             for r, q in S[s][1].items()):
                            w = (s, pi, wi)
            if w is None:
                fits_always = False
                break
            witness = w
        if some and fits_always:
            lower = sorted(n for n in placed if rank[n] > rank[U])
            out.append(mk(
                "priority.inversion", case,
                f"{U} (rank {rank[U]}) left unplaced although strategy {witness[0]} fits "
                f"pool {witness[1]} (worker {witness[2]}) once only tasks of "
                f"higher-or-equal priority are accounted, whichever workers they are "
                f"on; placed: {placed}; lower-priority placed: {lower}"))
            return
    return


def assignments(caps, placed, subset):
    """Every capacity-respecting assignment of the tasks in `subset` to workers of the
    pools they were placed in; yields the remaining free quantities per pool/worker."""
    subset = list(subset)

    def rec(k, free):
        if k == len(subset):
            yield free
            return
        pi, s = placed[subset[k]]
        for wi, f in enumerate(free[pi]):
            if all(f.get(r, 0) >= q for r, q in S[s][1].items()):
                nf = [[dict(x) for x in fr] for fr in free]
                for r, q in S[s][1].items():
                    nf[pi][wi][r] = nf[pi][wi].get(r, 0) - q
                yield from rec(k + 1, nf)
    yield from rec(0, [[dict(x) for x in fr] for fr in caps])


def mk(rule, case, msg):
    return {"rule": rule, "msg": f"{case['policy']} pools={case['poolset']} "
                                 f"tasks={case['tasks']}: {msg}", "case": case}


def job(item, tier, seed):
    from .. import bootstrap  # noqa: F401

    out = []
    stats = {"schedule_calls": 0, "calls_with_unplaced": 0, "calls_with_ties": 0}
    if item[0] == "case":
        judge(item[1], out, stats)
        return {"violations": out}
    _k, ntasks, first, policy, poolset = item
    per_task = [(r, sl) for r in (1, 2, 3) for sl in range(len(STRAT_LISTS))]
    if ntasks == 4:
        per_task = [(r, sl) for r in (1, 2) for sl in (0, 1, 2, 4, 6)]
    names = ["Ta", "Tb", "Tc", "Td"]
    if seed:
        import random as _r

        _r.Random(seed).shuffle(names)
    n = 0
    distinct = []
    rest = [per_task] * (ntasks - 1)
    for combo in itertools.product([first], *rest):
        case = {"policy": policy, "poolset": poolset, "tasks": [list(c) for c in combo],
                "names": names, "seed": seed}
        judge(case, out, stats)
        n += 1
        if len(out) > 20:
            del out[20:]
    distinct.append(hash((ntasks, tuple(first), policy, poolset)))
    return {"states": n, "transitions": n, "validated": n, "evaluations": n,
            "stats": stats, "violations": out, "distinct": distinct,
            "samples": [case] if first == (1, 0) and poolset == 0 else []}


def items(tier):
    it = []
    per_task = [(r, sl) for r in (1, 2, 3) for sl in range(len(STRAT_LISTS))]
    partial = [(r, sl, ran) for r in (1, 2, 3) for sl in range(len(STRAT_LISTS))
               for ran in (1, 2)
               if ran < max(S[s][0] for s in STRAT_LISTS[sl])]
    for pol in POLICIES:
        for ps in range(len(POOLSETS)):
            for nt in (1, 2, 3):
                for first in per_task:
                    it.append(("set", nt, first, pol, ps))
                # the first task was preempted after running 1 or 2 us: its remaining
                # time (LSF's slack) is no longer its strategy's runtime
                for first in partial:
                    if nt == 3 and tier == "quick" and first[2] == 1:
                        continue
                    it.append(("set", nt, first, pol, ps))
            if tier == "thorough":
                for first in [(r, sl) for r in (1, 2) for sl in (0, 1, 2, 4, 6)]:
                    it.append(("set", 4, first, pol, ps))
    return it


def confirm_job(case, tier, seed):
    return job(("case", case), tier, seed)


def main(tier, seed):
    run_generic(
        "C13", tier, seed, items(tier), job, extra=(tier, seed), engine="e3",
        rule="all task sets of size <=3 (thorough: 4 on a reduced menu) x priority ranks "
             "{1,2,3} (ties included) x 11 strategy lists (one with a zero-quantity entry) x 8 pool sets (single- and "
             "two-worker pools, with and without occupancy) x EDF/FIFO/LSF, first task "
             "fresh or preempted after 1-2 us; real schedule() vs an "
             "independent residual-fit check in priority order",
        assumptions=["priority key per policy realised through deadline (EDF), release "
                     "time (FIFO), deadline - now - slowest runtime (LSF)",
                     "ties count as accounted (the statement says higher or equal)"],
        required_stats=("schedule_calls", "calls_with_unplaced", "calls_with_ties",
                        "calls_with_a_partially_executed_task"),
        chunk=4, budget_s=280 if tier == "quick" else 900, confirm_job=confirm_job)


def replay(path):
    return generic_replay("C13", path, confirm_job, extra=("quick", 0), item_job=job)
