"""Slice composition for the E1-decided properties (DESIGN.md §5)."""
import itertools
import json
import sys

from .. import worlds as W
from ..checklib import run_e1


def greedy(enf=True):
    p = dict(W.GREEDY)
    if enf:
        p.update(W.GREEDY_ENF)
    return p


def conformance_set(seed):
    """>= 8 configurations covering each policy family, a conditional, a runtime
    variance, a non-zero deadline variance and a solver policy; executed in-process and
    as `python main.py` (real randomness, no tape) and compared row by row."""
    out = []
    names = W.names_for(3, seed)
    chain = ((0, 1), (1, 2))
    strategies = [[W.strat(2, CPU=1)], [W.strat(1, CPU=1)], [W.strat(2, CPU=1)]]
    wl = W.workload_from_dag(names, chain, strategies, W.RELEASES["two@1"], (50, 150))
    for pk, pf in (("EDF", W.GREEDY["EDF"]), ("FIFO", W.GREEDY["FIFO"]),
                   ("LSF", W.GREEDY["LSF"]),
                   ("EDF+enf+drop", W.GREEDY_ENF["EDF+enf+drop"])):
        out.append(W.mk_world(wl, W.CLUSTERS_CPU["2w"], pf, seed, tape=None,
                              tag=f"conf chain {pk}"))
    out.append(W.mk_world(wl, W.CLUSTERS_CPU["1x1"],
                          dict(W.GREEDY["EDF"], runtime_variance=50), seed, tape=None,
                          tag="conf chain EDF variance"))
    cond = [w for w in W.s_cond({"EDF": W.GREEDY["EDF"]}, seed,
                                resolve_modes=(False, True), clusters=("1x2",),
                                releases=("two@0",), runtimes=(1,))]
    for w in (cond[0], cond[1], cond[-1]):
        w["tape"] = None
        w["tag"] = "conf " + w["tag"]
        out.append(w)
    pp = W.planner_policies()
    for pk in ("ILP+la", "TSG+rtg"):
        out.append(W.mk_world(wl, W.CLUSTERS_CPU["2w"], pp[pk], seed, tape=None,
                              tag=f"conf chain {pk}"))
    return out


def pick(seed, options):
    return options[seed % len(options)]


def dag(pol_small, pol_n4, seed, th):
    """S-dag: all shapes <= 3 nodes under every listed policy; the 4-node shapes under
    `pol_n4` (quick: two clusters x two release patterns; thorough: everything, plus
    runtimes {1,2,3} on <= 3 nodes)."""
    out = [("S-dag", W.s_dag(pol_small, seed, max_n=3))]
    if th:
        out.append(("S-dag", W.s_dag(pol_small, seed, min_n=4, max_n=4)))
        out.append(("S-dag", W.s_dag(pol_n4, seed, runtimes=(1, 2, 3), max_n=3,
                                     releases=("two@0", "two@1"),
                                     slacks=((100, 100),))))
    else:
        out.append(("S-dag", W.s_dag(pol_n4, seed, min_n=4, max_n=4,
                                     clusters=("1x2", "2w"),
                                     releases=("one", "two@0"))))
    return out


def adv(seed, th, cancel=False):
    """Tape-driven adversarial scheduler (vf/adv.py): every legal decision sequence
    with at most `bound` departures from 'place it now'."""
    modes = None
    if cancel:
        # with --drop_skipped_tasks a task the scheduler leaves unplaced (also one it had
        # SCHEDULED before) is dropped: cancelled with everything that depends on it
        modes = {"plain": {}, "retract": {"retract": True},
                 "rtg+retract": {"retract": True, "rtg": True},
                 "retract+drop": {"retract": True, "drop": True}}
    out = [("S-adv", W.s_adv(seed, max_n=2, bound=2 if not th else 3, cap=4000,
                             cancel=cancel, modes=modes)),
           ("S-adv3", W.s_adv(seed, max_n=3, bound=1 if not th else 2, cap=4000,
                              cancel=cancel, modes=modes,
                              releases=("two@1",) if not th else ("one", "two@1")))]
    if th:
        out.append(("S-adv-la", W.s_adv(
            seed, max_n=3, bound=2, cap=4000, cancel=cancel,
            modes={"la": {"lookahead": 5}, "la+retract": {"lookahead": 5,
                                                          "retract": True}})))
    return out


def slices(prop, tier, seed):
    g = greedy()
    gp = W.GREEDY
    th = tier == "thorough"
    g3 = {"EDF": gp["EDF"], "LSF": gp["LSF"], "FIFO+enf": W.GREEDY_ENF["FIFO+enf"]}
    pp = W.planner_policies(full=th)
    pp_small = {k: pp[k] for k in ("ILP", "ILP+la", "TSG+rtg+retract", "TSC+la",
                                   "ILP+drop", "TSG+la+retract")}
    S = []
    if prop == "C01":
        S += dag(g, g3, seed, th)
        S.append(("S-res", W.s_res(g if th else g3, seed, full=th)))
        S.append(("S-cond", W.s_cond(gp, seed)))
        S.append(("S-plan", W.s_plan(pp if th else pp_small, seed,
                                     max_n=3 if th else 2)))
        S += adv(seed, th)
        if th:
            S.append(("S-cw", W.s_cw(seed, k_max=3)))
            S.append(("S-time", W.s_time(gp, seed)))
            S.append(("S-var", W.s_var(gp, seed)))
            S.append(("S-closed", W.s_closed(g, seed)))
            S.append(("S-dag3", W.s_dag(gp, seed, runtimes=(1, 2, 3), max_n=3,
                                        releases=("two@0",), slacks=((100, 100),))))
    elif prop == "C02":
        S += dag(g, g3, seed, th)
        S.append(("S-cond", W.s_cond(gp, seed)))
        S.append(("S-cond-xparent", W.s_cond(gp, seed, only=("xparent",))))
        S.append(("S-plan", W.s_plan(pp if th else pp_small, seed,
                                     max_n=3 if th else 2)))
        S.append(("S-time", W.s_time({"EDF": gp["EDF"]} if not th else gp, seed,
                                     max_n=2 if not th else 3)))
        S += adv(seed, th)
        S.append(("S-adv-cond", W.s_adv_cond(seed, bound=1 if not th else 2,
                                             templates=None if th else
                                             ("if2", "seq", "side"))))
        # closed-loop release: the next instance is *declared* to start 1us after the
        # previous one finished
        S.append(("S-closed", W.s_closed(g if th else g3, seed)))
    elif prop == "C03":
        S += dag(gp, gp, seed, th)
        S.append(("S-time", W.s_time({"EDF": gp["EDF"], "LSF": gp["LSF"]}
                                     if not th else gp, seed,
                                     max_n=2 if not th else 3)))
        S.append(("S-var", W.s_var(gp, seed, max_n=3)))
        S.append(("S-plan", W.s_plan(pp if th else pp_small, seed,
                                     max_n=3 if th else 2, with_cond=th)))
        S.append(("S-plan-ms", W.s_plan_ms(pp if th else pp_small, seed)))
        S += adv(seed, th)
        if th:
            S.append(("S-res", W.s_res(gp, seed, full=True)))
            S.append(("S-cond", W.s_cond(gp, seed)))
    elif prop == "C05":
        S += dag(g, g3, seed, th)
        S.append(("S-zero", W.s_zero(gp, seed)))
        S.append(("S-time", W.s_time(gp if th else {"EDF": gp["EDF"],
                                                    "FIFO": gp["FIFO"]}, seed,
                                     max_n=3 if th else 2)))
        S.append(("S-closed", W.s_closed(g, seed)))
        S.append(("S-cond", W.s_cond(gp, seed)))
        S += adv(seed, th, cancel=True)
        if th:
            S.append(("S-plan", W.s_plan(pp, seed)))
            S.append(("S-var", W.s_var(gp, seed)))
            S.append(("S-res", W.s_res(gp, seed, full=True)))
    elif prop == "C06":
        S += dag(g, g3, seed, th)
        S.append(("S-cond", W.s_cond(g, seed)))
        S.append(("S-plan", W.s_plan(pp if th else pp_small, seed,
                                     max_n=3 if th else 2)))
        S.append(("S-closed", W.s_closed(g, seed)))
        S += adv(seed, th, cancel=True)
        # four tasks, at least two sinks, whole graphs released: one sink is cancelled
        # while tasks elsewhere in the graph are booked ahead of their parents
        S.append(("S-adv4", W.s_adv(
            seed, min_n=4, max_n=4, bound=3, cap=6000, cancel=True, delays=(0, 2),
            clusters=("1x2",), releases=("one",), shape_filter=W.two_sinks,
            modes={"rtg": {"rtg": True}} if not th else
            {"rtg": {"rtg": True}, "rtg+retract": {"rtg": True, "retract": True}})))
        S.append(("S-adv-cond", W.s_adv_cond(seed, bound=1 if not th else 2, cancel=True,
                                             templates=None if th else
                                             ("if2", "nested", "side"))))
    elif prop == "C07":
        if th:
            S.append(("S-cond", W.s_cond(g, seed, clusters=("1x1", "1x2", "2w", "2p"),
                                         releases=("one", "two@0", "two@1"))))
        else:
            S.append(("S-cond", W.s_cond(g, seed, clusters=("1x1", "1x2", "2p"),
                                         releases=("one", "two@0"))))
        bp = {}
        for pol in ("best", "worst", "max", "random"):
            for k in ("ILP+la", "TSG+rtg", "ILP+rtg+retract"):
                bp[f"{k}/{pol}"] = dict(pp[k], scheduler_policy=pol)
        if not th:
            bp = {k: v for k, v in bp.items() if k.startswith("ILP+la")
                  or k.endswith("/random")}
        S.append(("S-cond-plan", W.s_cond(bp, seed, resolve_modes=(False, True),
                                          clusters=("1x2",), releases=("one",),
                                          runtimes=(1,))))
        S.append(("S-adv-cond", W.s_adv_cond(seed, bound=1 if not th else 2)))
    elif prop == "C08":
        S += dag(g, g3, seed, th)
        S.append(("S-cond", W.s_cond(g3, seed, clusters=("1x1", "1x2"),
                                     releases=("two@0",))))
        S.append(("S-res", W.s_res({"EDF": gp["EDF"]} if not th else g3, seed,
                                   full=th)))
        S.append(("S-closed", W.s_closed(g, seed)))
        S.append(("S-plan", W.s_plan(pp if th else pp_small, seed,
                                     max_n=3 if th else 2)))
        S.append(("S-time", W.s_time({"EDF": gp["EDF"]} if not th else gp, seed,
                                     max_n=2 if not th else 3)))
        # per-task deadlines inside one graph (the only stock way to get them)
        S.append(("S-decomp", W.s_dag(g3, seed, max_n=3, clusters=("1x1", "2w"),
                                      releases=("two@0",),
                                      slacks=((0, 0), (100, 100)),
                                      flags_extra={"decompose_deadlines": True})))
        S += adv(seed, th, cancel=True)
    elif prop == "C10":
        S.append(("S-dag", W.s_dag(g3, seed, max_n=3)))
        S.append(("S-res", W.s_res(g3 if not th else g, seed, full=th)))
        S.append(("S-plan", W.s_plan(pp if th else pp_small, seed,
                                     max_n=3 if th else 2)))
        S.append(("S-cond", W.s_cond(gp, seed, clusters=("1x2",), releases=("two@0",))))
        # Clockwork keeps queues between invocations: the decision contract (one
        # decision per request, ...) is judged on every invocation of its runs too
        S.append(("S-cw", W.s_cw(seed, k_max=2 if not th else 3, full=th)))
        if th:
            S.append(("S-time", W.s_time(gp, seed)))
            S.append(("S-closed", W.s_closed(g, seed)))
            S.append(("S-cw-hetero", W.s_cw_hetero(seed, k_max=3)))
    elif prop == "C15":
        S.append(("S-cw", W.s_cw(seed, k_max=3, full=th)))
        S.append(("S-cw-hetero", W.s_cw_hetero(seed, k_max=3, full=th)))
        S.append(("S-cw-slo", W.s_cw_slo(seed, k_max=3 if th else 2, full=th)))
        if th:
            S.append(("S-cw4", (w for w in W.s_cw(seed, k_max=4, full=False)
                                if " k=4 " in w["tag"] and "load=preload" in w["tag"])))
    elif prop == "C12":
        # the statement's quantifier: "ILP: task-by-task mode, i.e. without
        # release_taskgraphs, where enforcement is unconditional"
        enf = {k: v for k, v in pp.items() if v.get("enforce_deadlines")
               and not (v.get("scheduler") == "ILP" and v.get("release_taskgraphs"))}
        S.append(("S-plan", W.s_plan(enf if th else {k: enf[k] for k in pp_small},
                                     seed, max_n=3 if th else 2,
                                     slacks=((0, 0), (50, 50), (100, 100)))))
        S.append(("S-plan-ms", W.s_plan_ms(enf if th else {k: enf[k] for k in pp_small},
                                           seed)))
        # the batching mode of TetriSched-CPLEX and of the ILP policy (TetriSched-Gurobi
        # rejects the flag); the ILP one carries an open finding, see DESIGN.md 10.5
        S.append(("S-plan-batch", W.s_plan_batch(
            {k: v for k, v in enf.items() if k.startswith("TSC")
             or k == "ILP" or (th and k in ("ILP+la", "ILP+drop"))}, seed,
            k_max=3 if th else 2)))
        S.append(("S-cw", W.s_cw(seed, k_max=3 if th else 2, full=th)))
        S.append(("S-cw-hetero", W.s_cw_hetero(seed, k_max=3, full=th)))
        S.append(("S-cw-slo", W.s_cw_slo(seed, k_max=3, full=th)))
    elif prop == "C19":
        S.append(("S-closed", W.s_closed(g, seed)))
        # deadline bounds from the command line must reach every instance, also the ones
        # generated when an earlier instance finished
        S.append(("S-closed-min", W.s_closed({"EDF": gp["EDF"]}, seed,
                                             flags_extra={"min_deadline": 7},
                                             tag_extra="/min7")))
        S.append(("S-closed-max", W.s_closed({"EDF": gp["EDF"]}, seed,
                                             flags_extra={"max_deadline": 1},
                                             tag_extra="/max1")))
        S.append(("S-closed-plan", W.s_closed({k: pp[k] for k in ("ILP", "TSG+drop",
                                                                   "ILP+drop")}, seed)))
    elif prop == "C18":
        S += dag(g, g3, seed, th)
        S.append(("S-cond", W.s_cond(gp, seed, clusters=("1x2", "2p"),
                                     releases=("two@0",))))
        S.append(("S-plan", W.s_plan(pp if th else pp_small, seed,
                                     max_n=3 if th else 2)))
        S.append(("S-zero", W.s_zero(gp, seed)))
        if th:
            S.append(("S-time", W.s_time(gp, seed)))
            S.append(("S-closed", W.s_closed(g, seed)))
    else:
        raise ValueError(prop)
    return S


REQUIRED = {
    "C01": ("instants_full", "live_places"),
    "C02": ("starts", "releases"),
    "C03": ("finishes", "started_at_decided_time"),
    "C05": ("ended_by_exhaustion",),
    "C06": ("cancellations", "graphs_finished", "dead_tasks"),
    "C07": ("conditional_completions",),
    "C18": ("offers", "offered_tasks"),
    "C15": ("clockwork_invocations", "clockwork_batches",
            "clockwork_batches_of_two_or_more", "clockwork_cancellations"),
    "C10": ("schedule_calls_judged", "placements_judged", "jointly_feasible_decisions"),
    "C12": ("finishes_judged_against_deadline",),
    "C19": ("closed_loop_runs", "closed_loop_rereleases",
            "runs_reaching_full_concurrency"),
    "C08": ("runs_with_rows_checked", "traces_accepted_by_reader", "missed_deadlines",
            "cancelled_graphs", "scheduler_rows"),
}

BUDGET = {"quick": 240, "thorough": 900}
TAPE_BOUND = {"quick": 1, "thorough": 2}  # planners; greedy policies one less


def with_bounds(sl, tier):
    """Prediction answers only steer plan-ahead policies and the simulator's own
    bookkeeping; greedy worlds explore them with a smaller deviation bound."""
    def gen(it):
        for w in it:
            if w.get("adv") is None and \
                    w["flags"].get("scheduler", "EDF") in ("EDF", "FIFO", "LSF"):
                w["tape_bound"] = TAPE_BOUND[tier] - 1
            yield w
    return [(n, gen(it)) for n, it in sl]


def main(prop, tier, seed, extra_factory=None, props=None, finish=True):
    return run_e1(prop, tier, seed, with_bounds(slices(prop, tier, seed), tier), props=props,
           extra_factory=extra_factory, conformance=conformance_set(seed),
           budget_s=BUDGET[tier], tape_bound=TAPE_BOUND[tier], finish=finish,
           required_stats=REQUIRED.get(prop, ()),
           assumptions=[
               "bounded closed worlds (see worlds_per_slice); bundled policies only",
               "in-process main.main() == fresh `python main.py` (checked by the "
               "subprocess conformance set on every run)",
               "randomness owned through the answer tape; ids from the seeded generator",
               "branch *prediction* answers (random.choice / random.random inside "
               "resolve_conditional) are explored up to a deviation bound "
               f"{TAPE_BOUND[tier]} (greedy policies: one less); branch outcomes and fuzz answers exhaustively",
           ])


def replay(prop, path, extra_factory=None, props=None):
    from .. import e1

    with open(path) as f:
        d = json.load(f)
    world = d["world"]
    payload = d.get("payload") or {}
    props = set(payload.get("props") or props or [prop])
    extra = payload.get("extra") or extra_factory
    r = e1.replay_job_sub(world, props, extra or None)
    want = d["violation"]
    hit = [v for v in r["violations"] if v["prop"] == prop and v["rule"] == want["rule"]]
    print(f"replay of {path}: status={r['status']} events={r['events']} "
          f"violations={[(v['rule'], v['msg']) for v in r['violations'] if v['prop'] == prop]}")
    if hit:
        print(f"VIOLATION property={prop} replay={path}")
        return 1
    print("not reproduced")
    return 0
