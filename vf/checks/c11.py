"""C11 -- DAG-aware planners order children after parents (engine E4): every feasible
decision point of the ILP / TetriSched-Gurobi / Z3 model, decoded by the scheduler's
own read-back, must respect precedence."""
from . import _e4props
from .. import e4_instances as EI


def instances(tier, seed):
    th = tier == "thorough"
    for pol in ("ILP", "TSG", "Z3"):
        yield from EI.gen(
            [pol], tier, seed, max_n=3, variants=(0, 1, 2) if th else (0, 1),
            clusters=("c2", "c1c1", "c2c1", "c2|c1") if th else ("c2", "c1c1", "c2c1"),
            progress=("fresh", "running", "running_long", "completed", "scheduled",
                      "other_running"),
            deadlines=("loose", "tight") if th else ("loose",))
    # a predecessor that no worker can host right now (a running task of another graph
    # holds one of the two CPUs it needs) offered together with successors that fit
    for pol in ("ILP", "TSG", "Z3"):
        yield from EI.gen([pol], tier, seed, shapes=("chain2", "chain3", "fork", "join"),
                          max_n=3, variants=(7,), clusters=("c2",), progress=("fresh",),
                          deadlines=("loose",), blocker=True)
    # a join with one COMPLETED and one SCHEDULED parent (either order, either strategy
    # of the scheduled one), with and without retraction
    for pol in ("ILP", "TSG"):
        yield from EI.gen([pol], tier, seed, shapes=("join",), max_n=3, variants=(0, 8),
                          clusters=("c2", "c1c1"),
                          progress=("join_mixed_a0", "join_mixed_a1", "join_mixed_b0",
                                    "join_mixed_b1"),
                          deadlines=("loose",),
                          opt_keys=("rtg", "la", "rtg+retract", "la+retract"))
    if th:
        for pol in ("ILP", "TSG"):
            yield from EI.gen([pol], tier, seed, shapes=("diamond", "chain4", "fork3"),
                              max_n=4, variants=(0,), clusters=("c2",),
                              progress=("fresh", "running", "running_long", "completed"),
                              opt_keys=("rtg", "la"))


def main(tier, seed):
    _e4props.run(
        "C11", tier, seed, instances(tier, seed),
        rule="all DAG shapes <= 3 nodes (thorough: + three 4-node shapes) x strategy "
             "variants x clusters x progress of the first task(s) {fresh, running, "
             "completed, scheduled, other source running} x planner options; every "
             "decision point enumerated, every feasible one judged",
        required=("decision_points", "feasible_points", "returned_plan_located",
                  "feasible_points_placing_a_child"))


def replay(path):
    return _e4props.replay("C11", path)
