"""C17 -- graph algorithms agree with their definitions on every DAG (engine E3).

Enumerates *every* labelled DAG up to n nodes (Robinson recursion, unique generation)
and every digraph with a cycle up to 4 nodes; runs the real Graph / TaskGraph /
JobGraph routines on each and compares with brute-force definitions."""
import itertools

from .. import dags as D
from ..checklib import run_generic, generic_replay


def _build(n, edges):
    from workload.graph import Graph

    g = Graph()
    for i in range(n):
        g.add_node(i)
    for u, v in edges:
        g.add_child(u, v)
    return g


def check_incremental(n, edges, out):
    """The same graph built edge by edge (the way the workload loader connects a job
    graph) with queries *between* the additions: every answer must be right for the
    edges present at that moment -- nothing computed earlier may survive an edit."""
    from workload.graph import Graph

    g = Graph()
    for i in range(n):
        g.add_node(i)
    ev = 0
    present = []
    for k in range(len(edges) + 1):
        par = {i: [u for (u, v) in present if v == i] for i in range(n)}
        R = D.reach(n, tuple(present))
        ts = g.topological_sort()
        ev += 1
        pos = {x: i for i, x in enumerate(ts)}
        okp = sorted(ts) == list(range(n)) and all(pos[u] < pos[v] for u, v in present)
        memo = {}

        def dmax(x):
            if x not in memo:
                memo[x] = 1 if not par[x] else 1 + max(dmax(p) for p in par[x])
            return memo[x]

        okd = all(g.get_node_depth(i) == dmax(i) for i in range(n))
        oka = all(g.are_dependent(a, b) == ((b in R[a]) or (a in R[b]))
                  for a in range(n) for b in range(n) if a != b)
        ev += n + n * (n - 1)
        if not (okp and okd and oka):
            out.append({"rule": "incremental.stale_answer",
                        "msg": f"n={n} edges added so far {present} (of {list(edges)}): "
                               f"topological_sort={ts} ok={okp}, depths ok={okd}, "
                               f"are_dependent ok={oka}",
                        "case": {"n": n, "edges": list(edges)}})
            break
        if k < len(edges):
            u, v = edges[k]
            g.add_child(u, v)
            present.append((u, v))
    return ev


def check_cyclic(n, edges, out):
    from workload.graph import Graph

    g = _build(n, edges)
    try:
        ts = g.topological_sort()
        out.append({"rule": "cycle.not_reported",
                    "msg": f"n={n} edges={list(edges)}: topological_sort "
                           f"returned {ts} on a cyclic graph",
                    "case": {"n": n, "edges": list(edges), "cyclic": True}})
    except RuntimeError:
        pass
    # the same digraph built edge by edge with a query before every addition
    g2 = Graph()
    for i in range(n):
        g2.add_node(i)
    for u, v in edges:
        try:
            g2.topological_sort()
        except RuntimeError:
            pass
        g2.add_child(u, v)
    try:
        ts = g2.topological_sort()
        out.append({"rule": "cycle.not_reported_after_incremental_build",
                    "msg": f"n={n} edges={list(edges)}: built edge by edge with "
                           f"queries in between, topological_sort returned {ts}",
                    "case": {"n": n, "edges": list(edges), "cyclic": True}})
    except RuntimeError:
        pass


def check_graph(n, edges, weight_vectors, out, with_tasks=False):
    """Run every routine on one labelled DAG; append violations to out."""
    g = _build(n, edges)
    edges_l = list(edges)
    case = {"n": n, "edges": edges_l}
    R = D.reach(n, edges)
    par = {i: [u for (u, v) in edges if v == i] for i in range(n)}
    ch = {i: [v for (u, v) in edges if u == i] for i in range(n)}
    ev = 0

    def bad(rule, msg, **kw):
        c = dict(case)
        c.update(kw)
        out.append({"rule": rule, "msg": f"n={n} edges={edges_l}: {msg}", "case": c})

    # topological sort
    ts = g.topological_sort()
    ev += 1
    if sorted(ts) != list(range(n)):
        bad("topo.not_permutation", f"topological_sort={ts}")
    else:
        pos = {x: i for i, x in enumerate(ts)}
        for u, v in edges:
            if pos[u] > pos[v]:
                bad("topo.order", f"topological_sort={ts} puts {u} after {v}")
                break
    # sources / depth
    src = sorted(g.get_sources())
    ev += 1
    if src != sorted(i for i in range(n) if not par[i]):
        bad("sources", f"get_sources={src}")
    for i in range(n):
        if g.is_source(i) != (not par[i]):
            bad("is_source", f"is_source({i})={g.is_source(i)}")
    # depth: longest / shortest chain of ancestors
    memo_max, memo_min = {}, {}

    def dmax(x):
        if x not in memo_max:
            memo_max[x] = 1 if not par[x] else 1 + max(dmax(p) for p in par[x])
        return memo_max[x]

    def dmin(x):
        if x not in memo_min:
            memo_min[x] = 1 if not par[x] else 1 + min(dmin(p) for p in par[x])
        return memo_min[x]

    for i in range(n):
        ev += 2
        if g.get_node_depth(i) != dmax(i):
            bad("depth.max", f"get_node_depth({i})={g.get_node_depth(i)} != {dmax(i)}")
        if g.get_node_depth(i, func=min) != dmin(i):
            bad("depth.min", f"get_node_depth({i},min)={g.get_node_depth(i, func=min)}"
                             f" != {dmin(i)}")
    # dependency
    for a in range(n):
        for b in range(n):
            if a == b:
                continue
            ev += 1
            exp = (b in R[a]) or (a in R[b])
            got = g.are_dependent(a, b)
            if got != exp:
                bad("are_dependent", f"are_dependent({a},{b})={got}, reachable={exp}")
    # breadth first over the whole graph
    bf = list(g.breadth_first())
    ev += 1
    if sorted(bf) != list(range(n)):
        bad("bfs.not_each_once", f"breadth_first()={bf}")
    else:
        pos = {x: i for i, x in enumerate(bf)}
        for u, v in edges:
            if pos[u] > pos[v]:
                bad("bfs.parents_first", f"breadth_first()={bf}: {v} before parent {u}")
                break
    if list(iter(g)) != bf:
        bad("bfs.iter", "iter(graph) differs from breadth_first()")
    # depth first from every node: exactly the reachable set, each once
    for s in range(n):
        df = list(g.depth_first(s))
        ev += 1
        exp = sorted(R[s] | {s})
        if sorted(df) != exp:
            if sorted(set(df)) == exp:
                bad("dfs.duplicates", f"depth_first({s})={df} repeats a node", start=s)
            else:
                bad("dfs.wrong_set", f"depth_first({s})={df}, reachable={exp}", start=s)
    dfa = list(g.depth_first())
    ev += 1
    if sorted(dfa) != list(range(n)):
        if sorted(set(dfa)) == list(range(n)):
            bad("dfs.duplicates", f"depth_first()={dfa} repeats a node", start=None)
        else:
            bad("dfs.wrong_set", f"depth_first()={dfa}", start=None)
    # longest path
    paths = D.all_paths(n, edges)
    for wv in weight_vectors:
        ev += 1
        if wv is None:
            w = lambda x: 1 if not par[x] else 2  # noqa: E731  (documented default)
            lp = g.get_longest_path()
        else:
            w = lambda x, wv=wv: wv[x]  # noqa: E731
            lp = g.get_longest_path(weights=w)
        best = max(sum(w(x) for x in p) for p in paths)
        okpath = (len(lp) > 0 and not par[lp[0]] and not ch[lp[-1]] and
                  all(b in ch[a] for a, b in zip(lp, lp[1:])))
        if not okpath:
            bad("longest_path.not_a_path", f"weights={wv}: get_longest_path={lp}",
                weights=wv)
        elif sum(w(x) for x in lp) != best:
            bad("longest_path.not_max",
                f"weights={wv}: get_longest_path={lp} weight "
                f"{sum(w(x) for x in lp)} < max {best}", weights=wv)
    if with_tasks:
        ev += _check_taskgraph(n, edges, weight_vectors, paths, par, ch, bad)
    return ev


def _check_taskgraph(n, edges, weight_vectors, paths, par, ch, bad):
    """Same DAG as a real JobGraph / TaskGraph: critical path runtime, completion time,
    sink/source predicates."""
    from utils import EventTime
    from workload import (ExecutionStrategies, ExecutionStrategy, Job, JobGraph,
                          Resource, Resources, WorkProfile)

    ev = 0
    for wv in weight_vectors:
        if wv is None:
            continue
        jobs = []
        for i in range(n):
            # two strategies: the slowest one defines the critical path
            strategies = ExecutionStrategies([
                ExecutionStrategy(Resources({Resource("CPU", "any"): 1}), 1,
                                  EventTime(wv[i], EventTime.Unit.US)),
                ExecutionStrategy(Resources({Resource("CPU", "any"): 2}), 1,
                                  EventTime(max(wv[i] - 1, 0), EventTime.Unit.US)),
            ])
            jobs.append(Job(name=f"J{i}", profile=WorkProfile(f"p{i}", strategies)))
        jg = JobGraph(name="G", release_policy=JobGraph.ReleasePolicy.fixed(
            EventTime(1, EventTime.Unit.US), 1))
        for j in jobs:
            jg.add_job(j)
        for u, v in edges:
            jg.add_child(jobs[u], jobs[v])
        best = max(sum(wv[x] for x in p) for p in paths)
        ev += 2
        if jg.completion_time.time != best:
            bad("jobgraph.completion_time",
                f"weights={wv}: completion_time={jg.completion_time.time} != {best}",
                weights=wv)
        if jg.critical_path_runtime.time != best:
            bad("jobgraph.critical_path_runtime",
                f"weights={wv}: {jg.critical_path_runtime.time} != {best}", weights=wv)
        tgs = jg.generate_task_graphs(EventTime(10, EventTime.Unit.US))
        tg = list(tgs.values())[0]
        ev += 3
        if tg.critical_path_runtime.time != best:
            bad("taskgraph.critical_path_runtime",
                f"weights={wv}: {tg.critical_path_runtime.time} != {best}", weights=wv)
        sinks = sorted(t.name for t in tg.get_sink_tasks())
        if sinks != sorted(f"J{i}" for i in range(n) if not ch[i]):
            bad("taskgraph.sinks", f"get_sink_tasks={sinks}")
        srcs = sorted(t.name for t in tg.get_source_tasks())
        if srcs != sorted(f"J{i}" for i in range(n) if not par[i]):
            bad("taskgraph.sources", f"get_source_tasks={srcs}")
        if tg.deadline.time != best:
            bad("taskgraph.deadline",
                f"weights={wv}: deadline {tg.deadline.time} != release 0 + {best}",
                weights=wv)
    return ev


def weights_for(n, tier):
    if n <= 4:
        return [None] + [list(w) for w in itertools.product((1, 2, 3), repeat=n)]
    if n == 5:
        return [None] + [list(w) for w in itertools.product((1, 2), repeat=n)]
    # n == 6 (thorough): default weights + three fixed patterns incl. ties
    return [None, [1] * n, [1, 2, 1, 2, 1, 2], [3, 1, 2, 2, 1, 3]]


def job(item, tier):
    from .. import bootstrap  # noqa: F401

    kind = item[0]
    out = []
    res = {"states": 0, "transitions": 0, "validated": 0, "evaluations": 0,
           "stats": {}, "violations": out, "samples": [], "distinct": []}
    if kind == "dags":
        _k, n, masks = item[:3]
        sub = item[3] if len(item) > 3 else None
        wvs = weights_for(n, tier)
        cnt = 0
        dist = res["distinct"]
        for edges in D.labelled_dags(range(n), first_masks=masks, second_masks=sub):
            cnt += 1
            if len(edges) >= 2:
                dist.append(hash((n, edges)))
            res["transitions"] += check_graph(n, edges, wvs, out,
                                              with_tasks=(n <= 4))
            if n <= 4:
                res["transitions"] += check_incremental(n, edges, out)
                res["stats"]["incremental_constructions"] = \
                    res["stats"].get("incremental_constructions", 0) + 1
            if len(out) > 30:
                del out[30:]
        res["states"] = cnt
        res["validated"] = cnt
        res["evaluations"] = cnt
        res["stats"][f"dags_n{n}"] = cnt
        if masks and masks[0] == 1:
            res["samples"].append({"n": n, "first_source_mask": 1,
                                   "example_edges": list(edges) if cnt else []})
    elif kind == "cyclic":
        _k, n = item
        from workload.graph import Graph

        cnt = 0
        for edges in D.cyclic_digraphs(n):
            cnt += 1
            check_cyclic(n, edges, out)
            if len(out) > 30:
                del out[30:]
        res["states"] = cnt
        res["transitions"] = cnt
        res["validated"] = cnt
        res["stats"][f"cyclic_n{n}"] = cnt
        del Graph
    elif kind == "family":
        _k, name, n = item
        edges = family(name, n)
        wvs = [None, [1] * n, [(i % 3) + 1 for i in range(n)]]
        res["transitions"] += check_graph(n, edges, wvs, out, with_tasks=False)
        res["states"] = 1
        res["validated"] = 1
        res["stats"]["family_graphs"] = 1
    elif kind == "case":
        c = item[1]
        if c.get("cyclic"):
            check_cyclic(c["n"], [tuple(e) for e in c["edges"]], out)
        else:
            wv = [c.get("weights")] if "weights" in c else [None]
            check_graph(c["n"], [tuple(e) for e in c["edges"]], wv, out,
                        with_tasks=c["n"] <= 4)
            if c["n"] <= 4:
                check_incremental(c["n"], [tuple(e) for e in c["edges"]], out)
    return res


def family(name, n):
    """Structured families up to 40 nodes (random sampling is not this technique)."""
    if name == "chain":
        return tuple((i, i + 1) for i in range(n - 1))
    if name == "rchain":  # inserted in reverse topological order
        return tuple((i + 1, i) for i in range(n - 1))
    if name == "complete":
        return tuple((i, j) for i in range(n) for j in range(i + 1, n))
    if name == "layered":  # layers of 3, complete bipartite between layers
        e = []
        for i in range(n):
            for j in range(n):
                if j // 3 == i // 3 + 1:
                    e.append((i, j))
        return tuple(e)
    if name == "ladder":
        e = []
        for i in range(0, n - 2, 2):
            e += [(i, i + 2), (i + 1, i + 3 if i + 3 < n else i + 2), (i, i + 1)]
        return tuple(sorted(set(x for x in e if x[0] != x[1] and x[1] < n)))
    if name == "fanin":
        return tuple((i, n - 1) for i in range(n - 1))
    if name == "fanout":
        return tuple((0, i) for i in range(1, n))
    raise ValueError(name)


def items(tier):
    it = []
    top = 6 if tier == "thorough" else 5
    for n in range(1, top + 1):
        masks = list(range(1, 1 << n))
        if n <= 3:
            it.append(("dags", n, masks))
        elif n == 4:
            for m in masks:
                it.append(("dags", n, [m]))
        else:
            for m in masks:
                r = n - bin(m).count("1")
                if r <= 2:
                    it.append(("dags", n, [m]))
                else:
                    for sm in range(1, 1 << r):
                        it.append(("dags", n, [m], [sm]))
    for n in (2, 3, 4):
        it.append(("cyclic", n))
    for name in ("chain", "rchain", "complete", "layered", "ladder", "fanin", "fanout"):
        for n in (6, 10, 20, 40) if name != "complete" else (6, 10, 16):
            it.append(("family", name, n))
    return it


def confirm_job(case, tier):
    return job(("case", case), tier)


def main(tier, seed):
    run_generic(
        "C17", tier, seed, items(tier), job, extra=(tier,), engine="e3",
        rule="every labelled DAG with <= %d nodes (unique generation), every cyclic "
             "digraph with <= 4 nodes, structured families to 40 nodes; all routines "
             "vs brute-force definitions; weights {1,2,3}^n (n<=4), {1,2}^5" %
             (6 if tier == "thorough" else 5),
        assumptions=["states = graphs enumerated; transitions = routine evaluations "
                     "compared with the reference; all on the real Graph/TaskGraph/"
                     "JobGraph classes",
                     "the property's 'random DAGs up to 40 nodes' are replaced by "
                     "structured families (sampling is not this technique)"],
        required_stats=("dags_n5", "cyclic_n4", "family_graphs"), chunk=1,
        budget_s=240 if tier == "quick" else 900, confirm_job=confirm_job)


def replay(path):
    return generic_replay("C17", path, confirm_job, extra=("quick",), item_job=job)
