"""C14 -- optimisation-based planners do not leave achievable goodput on the table
(engine E4 instances + an independent exhaustive reference search).

For every instance inside the property's stated bound (<= 4 offered tasks, <= 2
workers, <= 2 strategies, horizon <= 12, discretisation 1-3, occupancies including
running tasks, task-by-task mode and whole-graph chains):
* ILP (goodput goal): the number of task graphs whose reward tasks are all placed by
  the returned plan must equal the maximum over *all* feasible plans, found by a
  pure-Python exhaustive search of the same decision space;
* TetriSched (Gurobi, CPLEX): no unplaced offered task can be added to the returned
  plan at any (slot, worker, strategy) without breaking capacity, release, precedence
  or deadline limits.
The reference adopts the timing conventions the planners document in their own
constraints (ILP: start >= now+1, 1 us between successive uses / parent and child;
TetriSched: half-open occupancy on the slot grid, child >= parent + slowest + 1) and
judges capacity instant by instant."""
import itertools

from ..checklib import run_generic, generic_replay


# ------------------------------------------------------------------ instance grammar
def graph(name, nodes, edges, strategies, deadline, progress=None, release=0):
    return {"name": name, "nodes": nodes, "edges": [list(e) for e in edges],
            "strategies": strategies, "deadline": deadline, "release": release,
            "progress": progress or {}}


CL = {
    "c1": [[{"CPU": 1}]], "c2": [[{"CPU": 2}]], "c1c1": [[{"CPU": 1}, {"CPU": 1}]],
    "c1|c1": [[{"CPU": 1}], [{"CPU": 1}]],
    # two CPUs listed as two entries of the same resource name
    "c1+1": [[{"CPU": 1, "CPU#2": 1}]],
}
NOW = 3


def instances(tier, seed):
    th = tier == "thorough"
    out = []
    one = [[2, {"CPU": 1}]]
    two = [[1, {"CPU": 2}], [3, {"CPU": 1}]]
    fast_slow = [[1, {"CPU": 1}], [3, {"CPU": 1}]]
    blockers = {
        "none": None,
        # a task that has been running for one of its four microseconds
        "run4": graph("Bk", ["R"], [], [[[4, {"CPU": 1}]]], 40,
                      {"R": ["running", NOW - 1, "p0w0", 0]}),
        "run2": graph("Bk", ["R"], [], [[[2, {"CPU": 1}]]], 40,
                      {"R": ["running", NOW - 1, "p0w0", 0]}),
    }
    pol_opts = {
        "ILP": [("plain", dict(enforce_deadlines=True)),
                ("rtg", dict(enforce_deadlines=True, release_taskgraphs=True))],
        "TSG": [("plain", dict(enforce_deadlines=True)),
                ("rtg", dict(enforce_deadlines=True, release_taskgraphs=True))],
        "TSC": [("plain", dict(enforce_deadlines=True))],
    }
    # (a) k independent single-task graphs with staggered deadlines
    for k in (1, 2, 3, 4):
        for strat_kind, ss in (("one", one), ("two", two), ("fastslow", fast_slow)):
            if k == 4 and strat_kind != "one":
                continue
            for ck in ("c1", "c2", "c1c1", "c1+1"):
                if strat_kind == "two" and ck == "c1":
                    continue
                if ck == "c1+1" and (k > 2 or strat_kind == "fastslow"):
                    continue
                for bk, blk in blockers.items():
                    for dl_kind in ("tight", "staggered", "loose", "fastonly"):
                        if dl_kind == "fastonly" and (strat_kind == "one" or k > 2):
                            continue
                        gs = []
                        for i in range(k):
                            if dl_kind == "fastonly":
                                # only the fast strategy (1us) can still make it
                                dl = NOW + 2 + i
                            elif dl_kind == "tight":
                                dl = NOW + 4
                            elif dl_kind == "staggered":
                                dl = NOW + 3 + 2 * i
                            else:
                                dl = NOW + 14
                            gs.append(graph(f"G{i}", ["T"], [], [ss], dl))
                        if blk:
                            gs.append(blk)
                        for pol, opts in pol_opts.items():
                            for ok, o in opts:
                                if ok == "rtg" and not th:
                                    continue
                                for disc in ((1,) if pol == "ILP" else
                                             ((1, 2, 3) if th or k <= 2 else (1, 2))):
                                    oo = dict(o)
                                    if pol != "ILP":
                                        oo["discretization"] = disc
                                        oo["plan_ahead"] = 9 if disc == 1 else 12
                                    out.append({
                                        "policy": pol, "opts": oo, "cluster": CL[ck],
                                        "graphs": gs, "now": NOW, "seed": seed,
                                        "tag": f"indep{k}/{strat_kind}/{ck}/{bk}/"
                                               f"{dl_kind}/d{disc}/{pol}+{ok}"})
    # (b) whole-graph chains and forks next to a single task
    shapes = {"chain2": (["A", "B"], [(0, 1)]), "chain3": (["A", "B", "C"],
                                                          [(0, 1), (1, 2)]),
              "fork": (["A", "B", "C"], [(0, 1), (0, 2)])}
    for sname, (nodes, edges) in shapes.items():
        strategies = [[[2, {"CPU": 1}]], [[1, {"CPU": 1}]], [[2, {"CPU": 1}]]][:len(nodes)]
        crit = 5 if sname == "chain3" else (3 if sname == "chain2" else 4)
        for ck in ("c1", "c2"):
            for bk, blk in blockers.items():
                for dl_kind in ("tight", "loose"):
                    dl = NOW + crit + len(nodes) + (1 if dl_kind == "tight" else 8)
                    for with_single in (False, True):
                        gs = [graph("G0", nodes, edges, strategies, dl)]
                        if with_single:
                            gs.append(graph("G1", ["T"], [], [one], NOW + 4))
                        if blk:
                            gs.append(blk)
                        for pol in ("ILP", "TSG"):
                            for ok, o in pol_opts[pol]:
                                for disc in ((1,) if pol == "ILP" else (1, 2)):
                                    oo = dict(o)
                                    if pol != "ILP":
                                        oo["discretization"] = disc
                                        oo["plan_ahead"] = 12
                                    out.append({
                                        "policy": pol, "opts": oo, "cluster": CL[ck],
                                        "graphs": gs, "now": NOW, "seed": seed,
                                        "tag": f"{sname}/{ck}/{bk}/{dl_kind}/"
                                               f"single={with_single}/d{disc}/{pol}+{ok}"})
    # (d) the default horizon (plan_ahead = -1: derived from the largest deadline offered
    # in the invocation) on a scheduler object that has planned a tighter batch before
    for k in (1, 2):
        for ck in ("c1", "c2"):
            for bk in ("none", "run4"):
                gs = [graph(f"G{i}", ["T"], [], [one], NOW + 9 + 3 * i) for i in range(k)]
                if blockers[bk]:
                    gs.append(blockers[bk])
                warm = {"policy": "TSG",
                        "opts": dict(enforce_deadlines=True, discretization=1,
                                     plan_ahead="default"),
                        "cluster": CL[ck], "graphs": [graph("W", ["T"], [], [one], 3)],
                        "now": 0, "seed": seed, "tag": "warmup"}
                for with_warmup in (False, True):
                    inst = {"policy": "TSG",
                            "opts": dict(enforce_deadlines=True, discretization=1,
                                         plan_ahead="default"),
                            "cluster": CL[ck], "graphs": gs, "now": NOW, "seed": seed,
                            "tag": f"indep{k}/one/{ck}/{bk}/late/d1/TSG+default-horizon"
                                   f"{'+second-invocation' if with_warmup else ''}"}
                    if with_warmup:
                        inst["warmup"] = warm
                    out.append(inst)
    # (c) whole-graph chains whose first task is already running with part of its work
    # done, a second worker free: the child may start right after the parent's
    # *remaining* time
    for sname, (nodes, edges) in shapes.items():
        strategies = [[[4, {"CPU": 1}]], [[1, {"CPU": 1}]], [[2, {"CPU": 1}]]][:len(nodes)]
        for ran in (1, 2, 3):
            prog = {"A": ["running", NOW - ran, "p0w0", 0]}
            rem = 4 - ran
            tail = 1 if sname != "chain3" else 4
            for ck in ("c1c1", "c2"):
                for dl_kind in ("tight", "tight+1", "loose"):
                    dl = NOW + rem + 1 + tail + {"tight": 0, "tight+1": 1,
                                                 "loose": 8}[dl_kind]
                    gs = [graph("G0", nodes, edges, strategies, dl, prog)]
                    for pol in ("ILP", "TSG"):
                        for disc in ((1,) if pol == "ILP" else (1, 2)):
                            oo = dict(enforce_deadlines=True, release_taskgraphs=True)
                            if pol != "ILP":
                                oo["discretization"] = disc
                                oo["plan_ahead"] = 12
                            out.append({
                                "policy": pol, "opts": oo, "cluster": CL[ck],
                                "graphs": gs, "now": NOW, "seed": seed,
                                "tag": f"{sname}/{ck}/parent-ran{ran}/{dl_kind}/d{disc}/"
                                       f"{pol}+rtg"})
    return out


# ------------------------------------------------------------------ reference
FULL_RUNNING = [False]  # attribution mode: charge running tasks their full runtime
PAIRWISE = [False]  # attribution mode: the ILP's own capacity rule (see cap_pairwise)


def cap_pairwise(F, intervals, pad):
    """The ILP formulation's capacity rule: for every task t1 and every worker w, the
    demand of t1 (if it is on w) plus the demand of *every* task on w whose (padded)
    interval overlaps t1 must fit w -- whether or not t1 itself is on w, and even if
    those other tasks do not overlap each other."""
    lst = [(w, dem, s, e + pad) for w, dem, s, e, _key in intervals]
    for i, (w1, d1, s1, e1) in enumerate(lst):
        for w, cap in F["workers"].items():
            used = dict(d1) if w1 == w else {}
            for j, (w2, d2, s2, e2) in enumerate(lst):
                if i != j and w2 == w and s1 < e2 and s2 < e1:
                    for r, q in d2.items():
                        used[r] = used.get(r, 0) + q
            for r, q in used.items():
                if r in d1 and q > cap.get(r, 0):
                    return False
    return True


def running_end(F, t):
    sp = t["spec"]
    rt = t["strategies"][sp[3]][0]
    return (F["now"] + rt) if FULL_RUNNING[0] else (sp[1] + rt)


def running_intervals(F):
    out = []
    for key, t in F["tasks"].items():
        sp = t["spec"]
        if sp[0] == "running":
            _rt, dem = t["strategies"][sp[3]]
            out.append((sp[2], dem, F["now"], running_end(F, t), key))
    return out


def cap_ok(F, intervals, pad, grid=None):
    """Instant-by-instant capacity; `pad` extends every interval (ILP: the 1 us
    separation), `grid` restricts the instants that are checked (TetriSched)."""
    by_w = {}
    for w, dem, s, e, key in intervals:
        by_w.setdefault(w, []).append((dem, s, e + pad))
    for w, lst in by_w.items():
        cap = F["workers"][w]
        pts = sorted(set(s for _d, s, _e in lst)) if grid is None else grid
        for t in pts:
            used = {}
            for dem, s, e in lst:
                if s <= t < e:
                    for r, q in dem.items():
                        used[r] = used.get(r, 0) + q
            for r, q in used.items():
                if q > cap.get(r, 0):
                    return False
    return True


def ilp_feasible(F, plan, offered):
    """Explicit rules of the ILP decision space (see module docstring)."""
    now = F["now"]
    iv = list(running_intervals(F))
    for key, d in plan.items():
        if d is None:
            continue
        w, sidx, start = d
        t = F["tasks"][key]
        rt, dem = t["strategies"][sidx]
        rel = t["release"] if t["release"] is not None else -1
        if start < max(now + 1, rel):
            return False
        if start + rt > t["deadline"]:
            return False
        if any(F["workers"][w].get(r, 0) < q for r, q in dem.items()):
            return False
        for p in t["parents"]:
            pt = F["tasks"][p]
            if p in plan:
                pd = plan[p]
                if pd is None:
                    return False
                if start < pd[2] + pt["strategies"][pd[1]][0] + 1:
                    return False
            elif pt["spec"][0] == "running":
                if start < running_end(F, pt) + 1:
                    return False
        iv.append((w, dem, start, start + rt, key))
    if PAIRWISE[0]:
        return cap_pairwise(F, iv, pad=1)
    return cap_ok(F, iv, pad=1)


def reward_tasks(F, offered, rtg):
    """Per graph: the tasks whose placement makes the graph count (ILP objective)."""
    by_g = {}
    for key in offered:
        by_g.setdefault(key[0], []).append(key)
    out = {}
    for g, keys in by_g.items():
        if rtg:
            sinks = [k for k, t in F["tasks"].items() if k[0] == g and not any(
                k in F["tasks"][c]["parents"] for c in F["tasks"])]
            out[g] = [k for k in sinks]
        else:
            out[g] = [k for k in keys if not any(
                k in F["tasks"][c]["parents"] and c in offered for c in keys)]
    return out


def ilp_options(F, key, H):
    t = F["tasks"][key]
    now = F["now"]
    rel = t["release"] if t["release"] is not None else -1
    lb = max(now + 1, rel)
    opts = []
    for w, cap in sorted(F["workers"].items()):
        for sidx, (rt, dem) in enumerate(t["strategies"]):
            if all(cap.get(r, 0) >= q for r, q in dem.items()):
                for s in range(lb, lb + H + 1):
                    if s + rt <= t["deadline"]:
                        opts.append((w, sidx, s))
    return opts


def ilp_best(F, offered, rtg, H):
    """Maximum number of graphs whose reward tasks are all placed, over all feasible
    plans (exhaustive DFS; subsets of graphs from the largest down)."""
    rw = reward_tasks(F, offered, rtg)
    graphs = sorted(rw)
    # tasks needed for a graph: its reward tasks plus their offered ancestors
    def closure(keys):
        need, st = set(), list(keys)
        while st:
            k = st.pop()
            if k in need:
                continue
            need.add(k)
            for p in F["tasks"][k]["parents"]:
                if p in offered:
                    st.append(p)
        return need

    evals = [0]
    for size in range(len(graphs), 0, -1):
        for sub in itertools.combinations(graphs, size):
            keys = set()
            ok = True
            for g in sub:
                if not all(k in offered for k in rw[g]):
                    ok = False
                    break
                keys |= closure(rw[g])
            if not ok:
                continue
            order = sorted(keys, key=lambda k: (len(closure([k])), k))
            opts = {k: ilp_options(F, k, H) for k in order}

            def rec(i, plan):
                if i == len(order):
                    evals[0] += 1
                    return ilp_feasible(F, plan, offered)
                k = order[i]
                for o in opts[k]:
                    plan[k] = o
                    evals[0] += 1
                    if ilp_feasible(F, plan, offered) and rec(i + 1, plan):
                        return True
                    del plan[k]
                return False

            if rec(0, {}):
                return size, sub, evals[0]
    return 0, (), evals[0]


def ts_feasible(F, plan, kind, grid):
    """TetriSched conventions: half-open occupancy on the slot grid."""
    now = F["now"]
    iv = list(running_intervals(F))
    for key, d in plan.items():
        if d is None or d == "cancel":
            continue
        w, sidx, start = d
        t = F["tasks"][key]
        rt, dem = t["strategies"][sidx]
        rel = t["release"] if t["release"] is not None else -1
        if start < max(now, rel) or start not in grid:
            return False
        if start + rt > t["deadline"]:
            return False
        if any(F["workers"][w].get(r, 0) < q for r, q in dem.items()):
            return False
        if kind == "TSG":
            for p in t["parents"]:
                pt = F["tasks"][p]
                slow = max(x for x, _d in pt["strategies"])
                if p in plan:
                    pd = plan[p]
                    if pd is None or pd == "cancel":
                        return False
                    if start < pd[2] + slow + 1:
                        return False
                elif pt["spec"][0] == "running":
                    # TetriSched orders a child after now + *remaining* time of a
                    # running parent; only the occupancy of a running task is
                    # over-charged (the open finding), so the attribution mode must
                    # not stretch the precedence bound as well
                    sp = pt["spec"]
                    if start < sp[1] + pt["strategies"][sp[3]][0] + 1:
                        return False
                elif pt["spec"][0] not in ("completed",):
                    return False  # a predecessor that is neither decided nor done
        iv.append((w, dem, start, start + rt, key))
    return cap_ok(F, iv, pad=0, grid=grid)


def judge(inst, out, stats):
    from .. import e4_explore as EX
    from .. import instances as I
    import workload.workload as WW

    kind = inst["policy"]
    F = EX.facts(inst)
    b = I.build(inst)
    offered_holder = []
    orig = WW.Workload.get_schedulable_tasks

    def spy(self, *a, **k):
        r = orig(self, *a, **k)
        if not offered_holder:
            offered_holder.append([(t.task_graph, t.name) for t in r])
        return r

    if inst.get("warmup"):
        # the same scheduler *object* has already planned another, smaller batch (as it
        # has in every run after the first invocation): nothing it derived there may
        # leak into this invocation
        bw = I.build(inst["warmup"])
        b.scheduler.schedule(bw.now, bw.workload, bw.worker_pools)
    WW.Workload.get_schedulable_tasks = spy
    try:
        pl = b.scheduler.schedule(b.now, b.workload, b.worker_pools)
    except Exception as e:  # noqa: B902
        out.append(mk(inst, "schedule.raises", f"{type(e).__name__}: {str(e)[:120]}"))
        return
    finally:
        WW.Workload.get_schedulable_tasks = orig
    offered = [k for k in (offered_holder[0] if offered_holder else [])
               if F["tasks"][k]["spec"][0] not in ("running", "completed")]
    plan, _problems = I.describe_placements(b, pl)
    plan = {k: v for k, v in plan.items() if k in F["tasks"]}
    stats["instances"] += 1
    stats["offered_tasks"] += len(offered)
    if len(offered) > 4:
        stats["outside_bound"] += 1
        return
    rtg = bool(inst["opts"].get("release_taskgraphs"))
    if kind == "ILP":
        H = 10
        placed = {k: v for k, v in plan.items() if v not in (None, "cancel")}
        # the returned plan must itself be feasible under the reference rules, so that
        # both sides speak about the same decision space
        if not ilp_feasible(F, {k: placed.get(k) for k in offered}, offered):
            stats["returned_plan_outside_reference_space"] += 1
        rw = reward_tasks(F, offered, rtg)
        got = sum(1 for g, ks in rw.items() if ks and all(k in placed for k in ks))
        best, which, evals = ilp_best(F, offered, rtg, H)
        stats["reference_evaluations"] += evals
        if best > 0:
            stats["instances_with_achievable_goodput"] += 1
        if got < best:
            FULL_RUNNING[0] = True
            try:
                best_full, _w, _e = ilp_best(F, offered, rtg, H)
            finally:
                FULL_RUNNING[0] = False
            PAIRWISE[0] = True
            try:
                best_pw, _w, _e = ilp_best(F, offered, rtg, H)
                FULL_RUNNING[0] = True
                best_both, _w, _e = ilp_best(F, offered, rtg, H)
            finally:
                PAIRWISE[0] = False
                FULL_RUNNING[0] = False
            out.append(mk(
                inst, "goodput.below_optimum",
                f"returned plan {short(plan)} lets {got} task graph(s) meet their "
                f"deadline, a feasible plan exists for {best}: {list(which)}",
                got=got, best=best,
                explained_by_running_overcharge=(got >= best_full),
                explained_by_pairwise_overlap_sum=(got < best_full and got >= best_pw),
                explained_by_overcharge_and_pairwise=(got < best_full and got < best_pw
                                                      and got >= best_both),
                all_unplaced=not placed))
        elif got > best:
            stats["planner_better_than_reference"] += 1
        else:
            stats["optimum_matched"] += 1
    else:
        disc = inst["opts"].get("discretization", 1)
        pa = inst["opts"].get("plan_ahead", 10)
        if pa == "default":
            # the documented default: the largest deadline among the offered tasks
            pa = max([F["tasks"][k]["deadline"] for k in offered] or [0])
        grid = list(range(F["now"], F["now"] + pa + 1, disc))
        cur = {k: plan.get(k) for k in offered}
        cur = {k: (None if v == "cancel" else v) for k, v in cur.items()}
        if not ts_feasible(F, cur, kind, grid):
            stats["returned_plan_outside_reference_space"] += 1
            return
        added = None
        n_try = 0
        for U in offered:
            if cur.get(U) is not None:
                continue
            # a task answered with a cancellation is a task the plan does without: if
            # it could still be added the plan is not maximal (a task that really cannot
            # meet its deadline any more cannot be added either, so it is never flagged)
            t = F["tasks"][U]
            for w in sorted(F["workers"]):
                for sidx in range(len(t["strategies"])):
                    for s in grid:
                        n_try += 1
                        trial = dict(cur)
                        trial[U] = (w, sidx, s)
                        if ts_feasible(F, trial, kind, grid):
                            added = (U, (w, sidx, s))
                            break
                    if added:
                        break
                if added:
                    break
            if added:
                break
        stats["reference_evaluations"] += n_try
        if any(v is None for v in cur.values()):
            stats["instances_with_unplaced_task"] += 1
        if added:
            FULL_RUNNING[0] = True
            try:
                trial = dict(cur)
                trial[added[0]] = added[1]
                still = False
                t = F["tasks"][added[0]]
                for w in sorted(F["workers"]):
                    for sidx in range(len(t["strategies"])):
                        for s in grid:
                            tr = dict(cur)
                            tr[added[0]] = (w, sidx, s)
                            if ts_feasible(F, tr, kind, grid):
                                still = True
            finally:
                FULL_RUNNING[0] = False
            out.append(mk(
                inst, "plan.not_maximal",
                f"returned plan {short(plan)}: offered task {added[0][1]}@{added[0][0]} "
                f"is left unplaced although it can be added at {added[1]} without "
                f"breaking capacity, release, precedence or deadline limits",
                release_taskgraphs=rtg,
                explained_by_running_overcharge=not still,
                added_is_non_sink=any(added[0] in F["tasks"][c]["parents"]
                                      for c in F["tasks"]),
                discretization=disc))
        else:
            stats["maximal_plans"] += 1


def short(plan):
    return {f"{k[1]}@{k[0]}": v for k, v in plan.items()}


def mk(inst, rule, msg, **kw):
    v = {"rule": rule, "msg": f"{inst['tag']}: {msg}", "case": inst,
         "policy": inst["policy"]}
    v.update(kw)
    return v


STAT_KEYS = ("instances", "offered_tasks", "outside_bound", "reference_evaluations",
             "instances_with_achievable_goodput", "optimum_matched",
             "planner_better_than_reference", "returned_plan_outside_reference_space",
             "instances_with_unplaced_task", "maximal_plans")


def job(item, tier):
    from .. import bootstrap  # noqa: F401

    out = []
    stats = {k: 0 for k in STAT_KEYS}
    judge(item, out, stats)
    return {"states": stats["reference_evaluations"],
            "transitions": stats["reference_evaluations"],
            "validated": 1, "evaluations": 1, "stats": stats, "violations": out,
            "distinct": [hash(item["tag"])] if stats["offered_tasks"] >= 2 else [],
            "samples": [{"tag": item["tag"]}] if hash(item["tag"]) % 97 == 0 else []}


def confirm_job(case, tier):
    return job(case, tier)


def main(tier, seed):
    run_generic(
        "C14", tier, seed, instances(tier, seed), job, extra=(tier,), engine="e4+ref",
        rule="1-4 single-task graphs (three strategy menus, staggered / tight / loose "
             "deadlines) and chain / fork graphs next to a single task, on 1-2 workers, "
             "with and without a running task, ILP (task-by-task; thorough: + "
             "release_taskgraphs) / TetriSched-Gurobi / TetriSched-CPLEX, "
             "discretisation 1-3; reference = exhaustive search of the same decision "
             "space in plain Python",
        assumptions=["states / transitions = plans evaluated by the reference search; "
                     "validated = instances whose returned plan was judged",
                     "the reference adopts the planners' documented timing conventions "
                     "and judges capacity instant by instant; a planner doing better "
                     "than the reference is not a violation"],
        required_stats=("instances", "reference_evaluations",
                        "instances_with_achievable_goodput", "optimum_matched",
                        "maximal_plans", "instances_with_unplaced_task"),
        chunk=3, budget_s=280 if tier == "quick" else 900, confirm_job=confirm_job)


def replay(path):
    return generic_replay("C14", path, confirm_job, extra=("quick",), item_job=job)
