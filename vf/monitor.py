"""Run monitor for engine E1: shadow state + oracles evaluated on every observation.

The shadow is derived from the world *description* and the *observed calls*; the only
things read from live objects are observables of the API (task.state, task times,
event time/type, the request vector of the strategy handed to a worker).
Each violation is tagged with the property id and a rule id.
"""
import hashlib
import json
import sys

from . import harness as H
from .desc import Desc

from workload import TaskState, BatchStrategy, Placement
from simulator import EventType

PT = Placement.PlacementType
MAXSIZE = sys.maxsize

V, R, S, RUN, PRE, EV, DONE, CAN = (
    TaskState.VIRTUAL, TaskState.RELEASED, TaskState.SCHEDULED, TaskState.RUNNING,
    TaskState.PREEMPTED, TaskState.EVICTED, TaskState.COMPLETED, TaskState.CANCELLED,
)


def us(t):
    """Exact microseconds of an EventTime (EventTime.to() goes through floats)."""
    if t is None:
        return None
    u = t.unit.value
    return t.time if u == 1 else t.time * int(u)


def demand_of(strategy):
    """Request vector of a strategy object: {(name, id): quantity}."""
    out = {}
    res = strategy.resources
    if res is None:
        return out
    for r, q in res._resource_vector.items():
        k = (r.name, r.id)
        out[k] = out.get(k, 0) + q
    return out


class TaskShadow(object):
    __slots__ = ("key", "task", "node", "graph", "state", "released", "release_t",
                 "sched_t", "decided_t", "decided_pool", "decided_worker",
                 "decided_strategy", "start_t", "finish_t", "cancel_t", "n_start",
                 "n_finish", "n_cancel", "runtime", "demand", "worker", "place_t",
                 "remove_t", "n_preempt", "fuzz_hi", "resolved_prob", "n_sched",
                 "ever_offered", "batch", "fallback", "same_profile_busy")

    def __init__(self, key, task, node, graph):
        self.key = key
        self.task = task
        self.node = node
        self.graph = graph
        self.state = V
        self.released = False
        self.release_t = None
        self.sched_t = None
        self.decided_t = None
        self.decided_pool = None
        self.decided_worker = None
        self.decided_strategy = None
        self.start_t = None
        self.finish_t = None
        self.cancel_t = None
        self.n_start = 0
        self.n_finish = 0
        self.n_cancel = 0
        self.n_preempt = 0
        self.n_sched = 0
        self.runtime = None
        self.demand = None
        self.worker = None
        self.place_t = None
        self.remove_t = None
        self.fuzz_hi = None
        self.resolved_prob = None
        self.ever_offered = False
        self.fallback = V
        self.same_profile_busy = 0
        self.batch = None


class WorkerShadow(object):
    def __init__(self, wdesc, live):
        self.desc = wdesc
        self.name = wdesc.name
        self.live = live
        self.resident = {}  # task key -> demand (plain strategies)
        self.batches = {}  # batch id -> [demand, set(task keys), batch_size]
        self.profiles = {}  # profile id -> demand
        self.cap_n = wdesc.capacity_by_name()
        self.cap_i = wdesc.capacity_by_id()

    def used(self):
        un, ui = {}, {}
        for d in list(self.resident.values()) + [b[0] for b in self.batches.values()] \
                + list(self.profiles.values()):
            for (n, i), q in d.items():
                un[n] = un.get(n, 0) + q
                if i not in (None, "any"):
                    ui[(n, i)] = ui.get((n, i), 0) + q
        return un, ui

    def over(self):
        un, ui = self.used()
        bad = []
        for n, q in un.items():
            if q > self.cap_n.get(n, 0):
                bad.append((n, q, self.cap_n.get(n, 0)))
        for k, q in ui.items():
            if q > self.cap_i.get(k, 0):
                bad.append((k, q, self.cap_i.get(k, 0)))
        return bad

    def fits(self, demand):
        un, ui = self.used()
        return self.desc.fits(demand, un, ui)

    def is_full_exact(self):
        un, _ = self.used()
        return any(un.get(n, 0) == c for n, c in self.cap_n.items())

    def idle(self):
        return not self.resident and not self.batches


GREEDY = ("EDF", "FIFO", "LSF")


class RunMonitor(H.NullMonitor):
    def __init__(self, world, props=None):
        self.world = world
        self.desc = Desc(world)
        self.props = props  # None = all
        self.violations = []
        self.stats = {}
        self.sim = None
        self.clock = 0
        self.tasks = {}
        self.by_obj = {}
        self.workers = {}  # id(live worker) -> WorkerShadow
        self.workers_by_name = {}
        self.pool_of_worker = {}
        self.pool_id_to_desc = {}
        self.pool_id_to_workers = {}
        self.res_id_owner = {}
        self.events = 0
        self.state_hashes = set()
        self.cur_event = None
        self.cur_event_started = None
        self.in_sched = False
        self.sched_calls = 0
        self.last_offer = None
        self.last_sched_time = None
        self.notifies = []
        self.tg_finished_rows_expected = set()
        self.inflight_max = {}
        self.flags = self.desc.flags
        self.policy = self.flags.get("scheduler", "EDF")
        if world.get("adv") is not None:
            self.policy = "ADV"  # tape-driven scheduler (vf/adv.py): not a greedy one
        self.enforce = bool(self.flags.get("enforce_deadlines", False))
        self.variance = int(self.flags.get("runtime_variance", 0))
        self.loop_timeout = self.flags.get("loop_timeout", MAXSIZE)
        self.retract = bool(self.flags.get("retract_schedules", False))
        self.preempt = bool(self.flags.get("preemption", False))
        self.resolve = bool(self.flags.get("resolve_conditionals_at_submission", False))
        h = hashlib.blake2b(digest_size=8)
        fl = {k: v for k, v in sorted(self.flags.items()) if k != "random_seed"}
        h.update(json.dumps([world["workload"], world["cluster"], fl],
                            sort_keys=True).encode())
        self.world_hash = h.digest()
        self.last_handled = None
        self.taken = {}  # (graph instance, conditional name) -> released child name
        self.dead_base = {}  # graph instance -> set(names) cancelled / untaken
        self.sched_log = []  # per invocation summaries (C10/C15 use them)
        self.c10 = None
        self.extra = []  # extension monitors (objects with the same hooks)

    # ---------------------------------------------------------------- utilities
    def want(self, prop):
        return self.props is None or prop in self.props

    def viol(self, prop, rule, msg, **kw):
        if not self.want(prop):
            return
        if len(self.violations) >= 40:
            return
        d = {"prop": prop, "rule": rule, "msg": msg, "t": self.clock,
             "event_index": self.events}
        d.update(kw)
        self.violations.append(d)

    def stat(self, k, n=1):
        self.stats[k] = self.stats.get(k, 0) + n

    def tkey(self, task):
        return (task.task_graph, task.name)

    def shadow(self, task):
        sh = self.by_obj.get(id(task))
        if sh is None:
            g = self.desc.graph_of(task.task_graph)
            node = g.nodes.get(task.name) if g else None
            sh = TaskShadow(self.tkey(task), task, node, g)
            # A task may already be past VIRTUAL when first seen only by harness error
            sh.state = task._state if task._state in (V,) else task._state
            self.by_obj[id(task)] = sh
            self.tasks[sh.key] = sh
        return sh

    def register_graph(self, tg):
        for t in tg.get_nodes():
            sh = self.shadow(t)
            if sh.resolved_prob is None:
                sh.resolved_prob = t.probability

    # ---------------------------------------------------------------- init
    def on_sim_init(self, sim):
        for pool in sim._worker_pools.worker_pools:
            pd = None
            for p in self.desc.pools:
                if p.name == pool.name:
                    pd = p
            self.pool_id_to_desc[pool.id] = pd
            self.pool_id_to_workers[pool.id] = []
            for w in pool.workers:
                wd = self.desc.workers.get(w.name)
                ws = WorkerShadow(wd, w)
                self.workers[id(w)] = ws
                self.workers_by_name[w.name] = ws
                self.pool_of_worker[w.name] = pool.id
                self.pool_id_to_workers[pool.id].append(ws)
                for r, _q in w.resources.resources:
                    self.res_id_owner[r.id] = w.name
        wl = getattr(sim._workload_loader, "workload", None)
        if wl is not None:
            for tg in wl.task_graphs.values():
                self.register_graph(tg)
        for e in self.extra:
            e.on_sim_init(sim)

    # ---------------------------------------------------------------- clock / events
    def on_step_pre(self, sim, step):
        t = us(sim._simulator_time)
        # a negative step is refused by the simulator itself (ValueError -> C05 crash);
        # C03 only judges what the clock actually did (see on_step_post)
        self._step_from = t

    def on_step_post(self, sim, step):
        t = us(sim._simulator_time)
        if t != self._step_from + us(step):
            self.viol("C03", "clock.step_mismatch",
                      f"clock {self._step_from}->{t} after step {us(step)}")
        if t < self.clock:
            self.viol("C03", "clock.backwards", f"clock {self.clock}->{t}")
        self.clock = t
        if us(step) > 0:
            self.check_capacity_all("clock")

    def on_event_pre(self, sim, ev):
        self.events += 1
        t = us(sim._simulator_time)
        et = us(ev.time)
        if et != t:
            self.viol("C03", "event.time_ne_clock",
                      f"{ev.event_type.name} with time {et} handled at clock {t}")
        if t < self.clock:
            self.viol("C03", "clock.backwards", f"clock {self.clock}->{t}")
        self.clock = t
        # nothing pending may precede the handled event
        key = (et, ev.event_type.value)
        for p in sim._event_queue._event_queue:
            pk = (us(p.time), p.event_type.value)
            if pk < key:
                self.viol("C03", "event.order",
                          f"handled {ev.event_type.name}@{et} while "
                          f"{p.event_type.name}@{us(p.time)} was pending")
                break
        self.cur_event = ev
        self.cur_event_started = None
        if ev.event_type == EventType.TASK_PLACEMENT:
            sh = self.shadow(ev.task)
            self.cur_event_started = sh.n_start
        for e in self.extra:
            e.on_event_pre(sim, ev)

    def on_event_post(self, sim, ev, ret):
        et = ev.event_type
        if et == EventType.TASK_PLACEMENT:
            self._check_placement_attempt(sim, ev)
        elif et == EventType.SIMULATOR_END:
            self.stat("ended")
        self.check_capacity_all("event")
        self._hash_state(sim)
        self.cur_event = None
        for e in self.extra:
            e.on_event_post(sim, ev, ret)

    def _hash_state(self, sim):
        h = hashlib.blake2b(digest_size=8)
        h.update(self.world_hash)
        parts = [self.clock]
        for k in sorted(self.tasks):
            sh = self.tasks[k]
            parts.append((k, sh.state.value, sh.release_t, sh.start_t, sh.finish_t,
                          sh.decided_t))
        for name in sorted(self.workers_by_name):
            un, _ = self.workers_by_name[name].used()
            parts.append((name, tuple(sorted(un.items()))))
        pend = sorted(
            (us(p.time), p.event_type.value,
             p.task.unique_name if p.task is not None else "")
            for p in sim._event_queue._event_queue)
        parts.append(tuple(pend))
        h.update(repr(parts).encode())
        self.state_hashes.add(int.from_bytes(h.digest(), "little"))

    # ---------------------------------------------------------------- C01 capacity
    def check_capacity_all(self, where):
        for ws in self.workers.values():
            bad = ws.over()
            if bad:
                self.viol("C01", "capacity.exceeded",
                          f"worker {ws.name} over capacity {bad} ({where})",
                          worker=ws.name)
            elif ws.is_full_exact():
                self.stats["instants_full"] = self.stats.get("instants_full", 0) + 1

    def on_worker_op(self, worker, op, args, exc):
        self._on_worker_op(worker, op, args, exc)
        for e in self.extra:
            e.on_worker_op(worker, op, args, exc)

    def _on_worker_op(self, worker, op, args, exc):
        ws = self.workers.get(id(worker))
        if ws is None:
            return  # a scheduler's private copy
        a, k = args
        if op == "place_task":
            task = a[0] if a else k.get("task")
            strategy = a[1] if len(a) > 1 else k.get("execution_strategy")
            if exc is not None:
                self.stat("live_place_refused")
                return
            sh = self.shadow(task)
            dem = demand_of(strategy)
            # a task draws from one worker only
            for other in self.workers.values():
                if sh.key in other.resident or any(
                        sh.key in b[1] for b in other.batches.values()):
                    self.viol("C01", "task.two_residencies",
                              f"{sh.key} placed on {ws.name} while resident on "
                              f"{other.name}")
            if isinstance(strategy, BatchStrategy):
                b = ws.batches.get(strategy.id)
                if b is None:
                    b = [dem, set(), strategy.batch_size]
                    ws.batches[strategy.id] = b
                b[1].add(sh.key)
                sh.batch = strategy.id
                self.stat("batch_members_placed")
            else:
                ws.resident[sh.key] = dem
                sh.batch = None
            sh.worker = ws.name
            sh.place_t = self.clock
            sh.demand = dem
            sh.runtime = us(strategy.runtime)
            self._check_strategy_belongs(sh, strategy, dem)
            self.stat("live_places")
            bad = ws.over()
            if bad:
                self.viol("C01", "capacity.exceeded",
                          f"worker {ws.name} over capacity {bad} after placing "
                          f"{sh.key}", worker=ws.name)
        elif op == "remove_task":
            task = a[1] if len(a) > 1 else k.get("task")
            tm = a[0] if a else k.get("current_time")
            if exc is not None:
                return
            sh = self.shadow(task)
            if sh.key in ws.resident:
                del ws.resident[sh.key]
            else:
                for bid, b in list(ws.batches.items()):
                    if sh.key in b[1]:
                        b[1].discard(sh.key)
                        if not b[1]:
                            del ws.batches[bid]
                        break
                else:
                    self.viol("C04", "remove.not_resident",
                              f"{sh.key} removed from {ws.name} where the shadow does "
                              f"not hold it")
            sh.remove_t = us(tm) if tm is not None else self.clock
        elif op == "load_profile":
            if exc is not None:
                return
            profile = a[0] if a else k.get("profile")
            strategy = a[1] if len(a) > 1 else k.get("loading_strategy")
            ws.profiles[profile.id] = demand_of(strategy)
            self.stat("profile_loads")
            bad = ws.over()
            if bad:
                self.viol("C01", "capacity.exceeded",
                          f"worker {ws.name} over capacity {bad} after loading "
                          f"{profile.name}", worker=ws.name)
        elif op == "evict_profile":
            if exc is not None:
                return
            profile = a[0] if a else k.get("profile")
            ws.profiles.pop(profile.id, None)
            self.stat("profile_evictions")

    def _check_strategy_belongs(self, sh, strategy, dem):
        """The strategy a task is placed with is one of its described strategies."""
        if sh.node is None or sh.node.profile is None:
            return
        rt = us(strategy.runtime)
        for s in self.desc.profiles[sh.node.profile].strategies:
            if s.runtime == rt and s.batch_size == strategy.batch_size and \
                    s.demand == {k: v for k, v in dem.items()}:
                return
        self.viol("C10", "strategy.foreign",
                  f"{sh.key} placed with a strategy (runtime {rt}, demand {dem}) that "
                  f"is not among its described strategies")

    # ---------------------------------------------------------------- task automaton
    def parents_state(self, sh):
        """(all live parents finished?, any parent finished?, unfinished list)."""
        g, node = sh.graph, sh.node
        if g is None or node is None:
            return True, True, []
        dead = self.dead_set(sh.key[0])
        unfinished, anyfin = [], False
        for p in node.parents:
            psh = self.tasks.get((sh.key[0], p))
            if psh is not None and psh.state == DONE:
                anyfin = True
                continue
            if node.terminal and p in dead:
                continue
            unfinished.append(p)
        if not node.parents:
            anyfin = True
        return (not unfinished) and anyfin, anyfin, unfinished

    def dead_set(self, ginst):
        """Least fixpoint on the described DAG: a task is dead if it was cancelled /
        is an untaken child, or is a non-terminal with a dead parent, or a terminal all
        of whose parents are dead."""
        g = self.desc.graph_of(ginst)
        base = self.dead_base.get(ginst, set())
        if g is None:
            return set(base)
        dead = set(base)
        changed = True
        while changed:
            changed = False
            for n in g.order:
                if n in dead:
                    continue
                nd = g.nodes[n]
                if not nd.parents:
                    continue
                if nd.terminal:
                    if all(p in dead for p in nd.parents):
                        dead.add(n)
                        changed = True
                else:
                    if any(p in dead for p in nd.parents):
                        dead.add(n)
                        changed = True
        return dead

    LEGAL = {
        "release": (V, S, PRE),
        "schedule": (V, R, S, PRE),
        "unschedule": (S,),
        "start": (S,),
        "finish": (RUN, PRE),
        "cancel": (V, R, S),
        "preempt": (RUN,),
        "resume": (PRE,),
    }

    def on_task_op(self, task, op, args, pre, exc):
        sh = self.shadow(task)
        a, k = args
        post = task._state
        if exc is not None:
            if post != pre:
                self.viol("C06", "illegal_call.changed_state",
                          f"{op} on {sh.key} raised but state {pre.name}->{post.name}")
            return
        if sh.state != pre:
            self.viol("C06", "shadow.diverged",
                      f"{sh.key}: shadow state {sh.state.name} but object was "
                      f"{pre.name} before {op}")
        if pre not in self.LEGAL[op]:
            self.viol("C06", "transition.illegal",
                      f"{op} accepted on {sh.key} in state {pre.name}")
        t = self.clock
        if op == "release":
            tm = a[0] if a else k.get("time")
            rt = us(tm) if tm is not None else us(task.release_time)
            sh.release_t = rt
            sh.released = True
            # C02: the release time a task was *declared* with (sources of every graph
            # instance: the instant its release policy -- or the completion of the
            # previous closed-loop instance, plus 1us -- fixed) is a lower bound for the
            # release the simulator performs, hence for its start
            ir = getattr(task, "intended_release_time", None)
            if ir is not None and not ir.is_invalid() and rt < us(ir):
                self.viol("C02", "release.before_declared_release_time",
                          f"{sh.key} released at {rt}, declared release time {us(ir)}")
            if pre == V:
                sh.state = R
                sh.fallback = R
            self.stat("releases")
        elif op == "schedule":
            pl = a[1] if len(a) > 1 else k.get("placement")
            sh.state = S
            sh.n_sched += 1
            sh.sched_t = t
            sh.decided_t = us(pl.placement_time)
            sh.decided_pool = pl.worker_pool_id
            sh.decided_worker = pl.worker_id
            sh.decided_strategy = pl.execution_strategy
            # was the decided pool, at the decided instant, still occupied by a running
            # task of the *same work profile* (used to attribute a known finding)
            sh.same_profile_busy = 0
            if sh.node is not None and sh.node.profile is not None:
                for osh in self.tasks.values():
                    if osh is sh or osh.state != RUN or osh.node is None:
                        continue
                    if osh.start_t is not None \
                            and osh.runtime is not None \
                            and osh.start_t + osh.runtime > sh.decided_t \
                            and self.pool_of_worker.get(osh.worker) == sh.decided_pool:
                        # 1 = some running task, 2 = one of the same work profile
                        sh.same_profile_busy = max(
                            sh.same_profile_busy,
                            2 if osh.node.profile == sh.node.profile else 1)
            if sh.decided_t > t:
                self.stat("placements_for_future")
            if not sh.released:
                self.stat("scheduled_before_release")
        elif op == "unschedule":
            # C06: "may fall back from SCHEDULED to its earlier state": the state it
            # was scheduled from.  A release that arrives while the task is SCHEDULED
            # does not change that earlier state (the task was scheduled as VIRTUAL).
            sh.state = sh.fallback
            sh.decided_t = None
            self.stat("retractions")
        elif op == "start":
            tm = a[0] if a else k.get("time")
            s = us(tm) if tm is not None else t
            sh.state = RUN
            sh.n_start += 1
            sh.start_t = s
            self._check_start(sh, task, s)
        elif op == "finish":
            sh.n_finish += 1
            sh.finish_t = t
            sh.state = DONE if post == DONE else post
            self._check_finish(sh, task, t, post)
        elif op == "cancel":
            sh.n_cancel += 1
            sh.cancel_t = t
            sh.state = CAN
            self.dead_base.setdefault(sh.key[0], set()).add(sh.key[1])
            self.stat("cancellations")
        elif op == "preempt":
            sh.state = PRE
            sh.n_preempt += 1
        elif op == "resume":
            sh.state = RUN
        if post != sh.state:
            self.viol("C06", "transition.wrong_target",
                      f"{op} on {sh.key} from {pre.name}: object now {post.name}, "
                      f"reference automaton says {sh.state.name}")
            sh.state = post
        for e in self.extra:
            e.on_task_op(task, op, args, pre, exc)

    def _check_start(self, sh, task, s):
        # C02: release / predecessors / once
        if not sh.released:
            self.viol("C02", "start.before_release",
                      f"{sh.key} started at {s} without having been released")
        elif sh.release_t is not None and s < sh.release_t:
            self.viol("C02", "start.before_release",
                      f"{sh.key} started at {s} < release {sh.release_t}")
        ok, anyfin, unfinished = self.parents_state(sh)
        if not ok:
            self.viol("C02", "start.before_parents",
                      f"{sh.key} started at {s} with unfinished predecessors "
                      f"{unfinished} (any finished: {anyfin})")
        for p in (sh.node.parents if sh.node else []):
            psh = self.tasks.get((sh.key[0], p))
            if psh is not None and psh.finish_t is not None and psh.finish_t > s:
                self.viol("C02", "start.before_parent_finish",
                          f"{sh.key} started at {s} < finish {psh.finish_t} of {p}")
        if sh.n_start > 1 and sh.n_preempt == 0:
            self.viol("C02", "start.twice", f"{sh.key} started {sh.n_start} times")
        if sh.n_cancel:
            self.viol("C02", "start.cancelled", f"{sh.key} started after cancellation")
        if sh.key[1] in self.dead_set(sh.key[0]):
            self.viol("C07", "untaken.started",
                      f"{sh.key} started although it can no longer receive its inputs")
        # C07: "the join and everything after it run once the taken branch completes"
        if sh.node is not None and getattr(sh.node, "terminal", False) and \
                sh.node.parents and not anyfin:
            self.viol("C07", "join.before_taken_branch",
                      f"join {sh.key} started at {s} although none of its predecessors "
                      f"{list(sh.node.parents)} has completed")
        # C03: not earlier than decided, on the decided pool, with the decided strategy
        if sh.decided_t is not None and s < sh.decided_t:
            self.viol("C03", "start.before_decided",
                      f"{sh.key} started at {s} < decided time {sh.decided_t}")
        if sh.place_t != s:
            self.viol("C03", "start.without_placement",
                      f"{sh.key} started at {s} but resources were taken at "
                      f"{sh.place_t}")
        if sh.worker is not None and sh.decided_pool is not None and \
                self.pool_of_worker.get(sh.worker) != sh.decided_pool:
            self.viol("C03", "start.wrong_pool",
                      f"{sh.key} runs on {sh.worker}, decided pool {sh.decided_pool}")
        if sh.decided_worker is not None and sh.worker is not None:
            live = self.workers_by_name[sh.worker].live
            if live.id != sh.decided_worker:
                self.viol("C03", "start.wrong_worker",
                          f"{sh.key} runs on {sh.worker}, decided another worker")
        # remaining time after fuzz
        rem = us(task._remaining_time)
        r = sh.runtime
        if r is not None:
            hi = r + (r * self.variance + 99) // 100 + (1 if self.variance else 0)
            sh.fuzz_hi = hi
            if self.variance == 0 and rem != r:
                self.viol("C03", "runtime.changed_at_start",
                          f"{sh.key}: runtime {r} but remaining {rem} at start")
            if rem < r or rem > hi:
                self.viol("C03", "runtime.out_of_variance",
                          f"{sh.key}: runtime {r} variance {self.variance}% remaining "
                          f"{rem}")
            if rem != r:
                self.stat("fuzzed_runtimes")
        self.stat("starts")

    def _check_finish(self, sh, task, t, post):
        if sh.n_finish > 1 and sh.n_preempt == 0:
            self.viol("C02", "finish.twice", f"{sh.key} finished {sh.n_finish} times")
        if post != DONE:
            self.viol("C03", "finish.not_completed",
                      f"{sh.key} finished into state {post.name}")
        s, r = sh.start_t, sh.runtime
        if s is None or r is None:
            return
        ct = us(task.completion_time) if task.completion_time is not None else None
        lo, hi = s + r, s + (sh.fuzz_hi if sh.fuzz_hi is not None else r)
        if self.variance == 0:
            hi = lo
        if sh.n_preempt == 0:
            if not (lo <= t <= hi):
                self.viol("C03", "finish.time",
                          f"{sh.key} started {s} runtime {r}: finish event at {t}, "
                          f"expected [{lo},{hi}]")
            if ct is not None and not (lo <= ct <= hi):
                self.viol("C03", "finish.completion_time",
                          f"{sh.key} started {s} runtime {r}: completion_time {ct}, "
                          f"expected [{lo},{hi}]")
            if sh.remove_t != t:
                self.viol("C03", "finish.resources_released_at",
                          f"{sh.key} finished at {t} but left its worker at "
                          f"{sh.remove_t}")
        # C12 (consequence): planner runs with enforcement and exact runtimes
        if self.enforce and self.variance == 0 and self.policy in (
                "ILP", "TetriSched_Gurobi", "TetriSched_CPLEX", "Clockwork"):
            dl = us(task.deadline)
            self.stat("finishes_judged_against_deadline")
            if t > dl:
                self.viol("C12", "finish.after_deadline",
                          f"{sh.key} completed at {t} > deadline {dl} under "
                          f"{self.policy} with deadline enforcement (started {s}, "
                          f"decided for {sh.decided_t})",
                          has_predecessors=bool(sh.node is not None
                                                and sh.node.parents),
                          started_after_decided=bool(sh.decided_t is not None
                                                     and s is not None
                                                     and s > sh.decided_t),
                          planned_completion_by_deadline=bool(
                              sh.decided_t is not None and sh.runtime is not None
                              and sh.decided_t + sh.runtime <= dl),
                          batching=bool(self.flags.get("scheduler_enable_batching")),
                          decided_pool_had_running_task=bool(sh.same_profile_busy),
                          decided_pool_busy_with_same_profile=(
                              sh.same_profile_busy == 2))
        self.stat("finishes")

    def _check_placement_attempt(self, sim, ev):
        """C03(c): a placement event that does not start the task must be justified."""
        sh = self.shadow(ev.task)
        if sh.n_start != self.cur_event_started:
            if sh.decided_t is not None and sh.start_t == sh.decided_t:
                self.stat("started_at_decided_time")
            else:
                self.stat("started_later_than_decided")
            return
        self.stat("placement_deferrals")
        if sh.state in (CAN,) or sh.n_cancel:
            return
        g = sim._workload.get_task_graph(ev.task.task_graph)
        ok, anyfin, unfinished = self.parents_state(sh)
        if not ok:
            self.stat("deferred_not_ready")
            return
        if sh.key[1] in self.dead_set(sh.key[0]):
            return
        if g is not None and any(
                self.tasks.get((sh.key[0], s.name)) is not None
                and self.tasks[(sh.key[0], s.name)].state == CAN
                for s in g.get_sink_tasks()):
            return  # the graph is cancelled; the simulator consumes the event
        pl = ev.placement
        dem = demand_of(pl.execution_strategy)
        cands = self.pool_id_to_workers.get(pl.worker_pool_id, [])
        if pl.worker_id is not None:
            cands = [w for w in cands if w.live.id == pl.worker_id]
        can = False
        for ws in cands:
            if isinstance(pl.execution_strategy, BatchStrategy) and \
                    pl.execution_strategy.id in ws.batches:
                can = True
            elif ws.fits(dem):
                can = True
        if can:
            self.viol("C03", "start.delayed_without_cause",
                      f"{sh.key}: placement due at {self.clock} not applied although "
                      f"predecessors are done and the pool can hold it")
        else:
            self.stat("deferred_worker_not_ready")

    # ---------------------------------------------------------------- notify / cancel
    def on_notify(self, tg, task, time, ret, exc):
        if exc is not None:
            return
        sh = self.shadow(task)
        released, cancelled = ret
        node = sh.node
        if node is not None and node.conditional:
            self.stat("conditional_completions")
            names = [t.name for t in released]
            if len(released) != 1:
                self.viol("C07", "branch.count",
                          f"conditional {sh.key} released {names}")
            for t in released:
                csh = self.shadow(t)
                dp = csh.node.probability if csh.node else 1.0
                if dp <= 0.0:
                    self.viol("C07", "branch.zero_probability",
                              f"conditional {sh.key} released {t.name} whose described "
                              f"probability is 0")
                if t.name not in node.children:
                    self.viol("C07", "branch.not_a_child",
                              f"conditional {sh.key} released {t.name}")
                if self.resolve and csh.resolved_prob is not None and \
                        csh.resolved_prob < 1.0 - 1e-9:
                    self.viol("C07", "branch.not_resolved_one",
                              f"conditional {sh.key} released {t.name} but submission "
                              f"resolved another branch (p={csh.resolved_prob})")
            if len(released) == 1:
                self.taken[(sh.key[0], sh.key[1])] = released[0].name
                base = self.dead_base.setdefault(sh.key[0], set())
                before = self.dead_set(sh.key[0])
                for c in node.children:
                    if c != released[0].name:
                        base.add(c)
                after = self.dead_set(sh.key[0])
                expected = after - before
                got = set(t.name for t in cancelled)
                if got - after:
                    self.viol("C07", "cancel.too_much",
                              f"conditional {sh.key} took {released[0].name}; cancelled "
                              f"{sorted(got - after)} which are not on untaken "
                              f"branches")
                if expected - got:
                    # may already be cancelled earlier; only those still alive count
                    missing = [n for n in expected - got
                               if self.tasks.get((sh.key[0], n)) is None
                               or self.tasks[(sh.key[0], n)].state != CAN]
                    if missing:
                        self.viol("C07", "cancel.too_little",
                                  f"conditional {sh.key} took {released[0].name}; "
                                  f"{sorted(missing)} on untaken branches were not "
                                  f"cancelled", missing=sorted(missing))
        else:
            # C18: release-on-completion rule
            if node is not None and sh.graph is not None:
                exp = []
                dead = self.dead_set(sh.key[0])
                for c in node.children:
                    cn = sh.graph.nodes[c]
                    csh = self.tasks.get((sh.key[0], c))
                    if csh is not None and csh.state == CAN:
                        continue
                    if cn.terminal:
                        exp.append(c)
                    elif all(self.tasks.get((sh.key[0], p)) is not None
                             and self.tasks[(sh.key[0], p)].state == DONE
                             for p in cn.parents):
                        exp.append(c)
                got = [t.name for t in released]
                if sorted(exp) != sorted(got):
                    self.viol("C18", "release_on_completion",
                              f"completion of {sh.key} released {sorted(got)}, "
                              f"expected {sorted(exp)}")
                del dead
        self.notifies.append((sh.key, [t.name for t in released],
                              [t.name for t in cancelled]))

    def on_tg_completion(self, wl, tg, time, ret):
        for t in ret:
            self.shadow(t)
        if ret:
            g = wl.get_task_graph(ret[0].task_graph)
            if g is not None:
                self.register_graph(g)
            self.stat("closed_loop_rereleases")

    # ---------------------------------------------------------------- scheduler calls
    def on_sched_pre(self, sim, ev):
        self.in_sched = True
        self.sched_calls += 1
        self.last_offer = None
        for e in self.extra:
            e.on_sched_pre(sim, ev)

    def on_offer(self, wl, args, kwargs, ret):
        if self.in_sched and self.last_offer is None:
            self.last_offer = list(ret)
            self._check_offer(wl, args, kwargs, ret)
        for e in self.extra:
            e.on_offer(wl, args, kwargs, ret)

    def _check_offer(self, wl, args, kwargs, ret):
        now = self.clock
        offered = set()
        for t in ret:
            sh = self.shadow(t)
            sh.ever_offered = True
            offered.add(sh.key)
            if sh.state in (DONE, CAN):
                self.viol("C18", "offer.finished_task",
                          f"{sh.key} in state {sh.state.name} offered at {now}")
            if sh.state == S and not self.retract and not self.preempt:
                self.viol("C18", "offer.scheduled_without_retract",
                          f"{sh.key} SCHEDULED offered at {now}")
            if sh.state == RUN and not self.preempt:
                self.viol("C18", "offer.running_without_preempt",
                          f"{sh.key} RUNNING offered at {now}")
            if self.policy in GREEDY:
                ok, anyfin, unfinished = self.parents_state(sh)
                if not ok:
                    self.viol("C18", "offer.premature",
                              f"{sh.key} offered to {self.policy} at {now} with "
                              f"unfinished predecessors {unfinished}")
        for k, sh in self.tasks.items():
            if sh.state == R and sh.release_t is not None and sh.release_t <= now \
                    and k not in offered:
                self.viol("C18", "offer.starved",
                          f"{k} RELEASED since {sh.release_t} not offered at {now}")
        self.stat("offers")
        self.stat("offered_tasks", len(ret))

    def on_sched_post(self, sim, ev, placements, exc):
        self.in_sched = False
        for e in self.extra:
            e.on_sched_post(sim, ev, placements, exc)

    # ---------------------------------------------------------------- end of run
    def on_end(self, sim, outcome):
        self.outcome = outcome
        rows = outcome.rows or []
        self.stat("runs")
        if outcome.status != "ok":
            self.stat("runs_" + outcome.status)
            self.viol("C05", "run." + outcome.status,
                      f"{outcome.exc_type}: {outcome.exc_msg} @ {outcome.exc_where}",
                      exc_type=outcome.exc_type, where=outcome.exc_where)
            for e in self.extra:
                e.on_end(sim, outcome)
            return
        end_rows = [r for r in rows if ",SIMULATOR_END," in r]
        if len(end_rows) != 1 or rows[-1] != end_rows[0]:
            self.viol("C05", "end.row", f"SIMULATOR_END rows: {end_rows[-2:]}")
            return
        end_t = int(end_rows[0].split(",")[0])
        if end_t > self.loop_timeout:
            self.viol("C05", "end.after_timeout",
                      f"ended at {end_t} > loop_timeout {self.loop_timeout}")
        if end_t >= self.loop_timeout:
            self.stat("ended_by_timeout")
        else:
            self.stat("ended_by_exhaustion")
        self._check_work_conservation(sim, end_t)
        self._check_lifecycle_end(sim, rows, end_t)
        self._check_idle_capacity_end(sim)
        for e in self.extra:
            e.on_end(sim, outcome)

    def expected_graph_instances(self):
        """Number of graph instances the description promises (fixed / closed loop)."""
        n = 0
        for g in self.desc.graphs.values():
            if g.release_policy in ("fixed", "closed_loop"):
                inv = self.flags.get("override_num_invocation") or g.invocations
                n += int(inv)
            else:
                return None
        return n

    def _check_work_conservation(self, sim, end_t):
        if self.policy not in GREEDY or self.enforce or self.preempt:
            return
        if self.loop_timeout != MAXSIZE:
            return
        if not self.desc.every_task_fits_somewhere():
            return
        if end_t >= 2 ** 62:
            self.viol("C05", "wc.ended_at_infinity",
                      f"work-conserving run ended at {end_t}")
        exp = self.expected_graph_instances()
        graphs = sim._workload.task_graphs
        if exp is not None and len(graphs) != exp:
            self.viol("C05", "wc.graph_count",
                      f"{len(graphs)} graph instances at the end, described {exp}")
        for tg in graphs.values():
            dead = self.dead_set(tg.name)
            for t in tg.get_nodes():
                st = t.state
                if st == DONE:
                    continue
                if st == CAN and t.name in dead:
                    continue
                if t.name in dead:
                    continue  # reported by C06/C07
                self.viol("C05", "wc.unfinished",
                          f"{t.unique_name} is {st.name} at the end of a "
                          f"work-conserving run (t={end_t})", state=st.name)
                return
        self.stat("work_conserving_runs_checked")

    def _check_lifecycle_end(self, sim, rows, end_t):
        cancel_rows = set()
        tgf = set()
        for r in rows:
            f = r.split(",")
            if len(f) > 5 and f[1] == "TASK_CANCEL":
                cancel_rows.add((f[5], f[2]))
            elif len(f) > 2 and f[1] == "TASK_GRAPH_FINISHED":
                if f[2] in tgf:
                    self.viol("C06", "graph_finished.twice", f"{f[2]} reported twice")
                tgf.add(f[2])
        for tg in sim._workload.task_graphs.values():
            dead = self.dead_set(tg.name)
            g = self.desc.graph_of(tg.name)
            for t in tg.get_nodes():
                sh = self.by_obj.get(id(t))
                if t.name in dead:
                    self.stat("dead_tasks")
                    if t.state != CAN:
                        self.viol("C06", "dead.not_cancelled",
                                  f"{t.unique_name} can no longer receive its inputs "
                                  f"but is {t.state.name} at the end", task=t.name)
                    elif (tg.name, t.name) not in cancel_rows:
                        self.viol("C06", "dead.no_cancel_row",
                                  f"{t.unique_name} cancelled without a TASK_CANCEL "
                                  f"row")
                    if sh is not None and sh.n_start:
                        self.viol("C06", "dead.started", f"{t.unique_name} started")
                elif t.state == CAN:
                    self.viol("C06", "cancelled.but_live",
                              f"{t.unique_name} is CANCELLED but not dead by the "
                              f"description")
            if g is not None:
                sinks_done = all(
                    self.tasks.get((tg.name, s)) is not None
                    and self.tasks[(tg.name, s)].state == DONE for s in g.sinks())
                if sinks_done != (tg.name in tgf):
                    self.viol("C06", "graph_finished.mismatch",
                              f"{tg.name}: all sinks completed={sinks_done}, "
                              f"TASK_GRAPH_FINISHED row present={tg.name in tgf}")
                if sinks_done:
                    self.stat("graphs_finished")
        # C07 end: joins
        for (ginst, cname), child in self.taken.items():
            g = self.desc.graph_of(ginst)
            if g is None:
                continue
            self.stat("branches_taken_" + ("first" if g.nodes[cname].children[0] == child
                                           else "other"))

    def _check_idle_capacity_end(self, sim):
        # C04 (E1 part): with nothing running every live worker is at full capacity
        running = [sh for sh in self.tasks.values() if sh.state == RUN]
        if running:
            return
        from workload import Resource
        for ws in self.workers.values():
            if ws.profiles:
                continue
            for n, cap in ws.cap_n.items():
                r = Resource(name=n, _id="any")
                av = ws.live.resources.get_available_quantity(r)
                if av != cap:
                    self.viol("C04", "idle.not_full_capacity",
                              f"worker {ws.name}: nothing running but {n} available "
                              f"{av} of {cap}")
            if ws.live.get_placed_tasks():
                self.viol("C04", "idle.tasks_left",
                          f"worker {ws.name} still lists placed tasks at idle end")

    # ---------------------------------------------------------------- summary
    def summary(self):
        sig = tuple(sorted(
            (k[1], sh.state.value, sh.start_t, sh.finish_t) for k, sh in
            self.tasks.items()))
        h = hashlib.blake2b(repr(sig).encode(), digest_size=8).digest()
        return {
            "violations": self.violations,
            "stats": self.stats,
            "events": self.events,
            "states": self.state_hashes,
            "outcome_sig": int.from_bytes(h, "little"),
        }
