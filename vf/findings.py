"""Known findings (DESIGN.md §3.6): committed list of genuine defects that are
recorded rather than repaired.  Never written at run time.

Entry format (known_findings.json, list under "findings"):
  {"id": "...", "property": "C05", "status": "open" | "fixed",
   "rule": "run.watchdog"            (exact rule id, or prefix ending with '*'),
   "match": {feature: value, ...}     (all must hold; see `features`),
   "what": "human description", "commit": "<sha, for fixed>"}
A violation matching an *open* entry is reported as KNOWN-FINDING and does not fail
the check.  `fixed` entries suppress nothing.
"""
import json
import os

PATH = os.path.join(os.path.dirname(os.path.dirname(os.path.abspath(__file__))),
                    "known_findings.json")


def load():
    if not os.path.exists(PATH):
        return []
    with open(PATH) as f:
        return json.load(f).get("findings", [])


def world_features(world):
    """Features of a closed world that finding predicates may refer to."""
    f = {}
    if not world:
        return f
    wl = world.get("workload", {})
    fl = world.get("flags", {})
    f["policy"] = fl.get("scheduler", "EDF")
    f["enforce_deadlines"] = bool(fl.get("enforce_deadlines", False))
    f["drop_skipped_tasks"] = bool(fl.get("drop_skipped_tasks", False))
    f["retract_schedules"] = bool(fl.get("retract_schedules", False))
    f["release_taskgraphs"] = bool(fl.get("release_taskgraphs", False))
    f["lookahead"] = int(fl.get("scheduler_lookahead", 0)) > 0
    f["resolve_at_submission"] = bool(fl.get("resolve_conditionals_at_submission",
                                             False))
    zero = False
    multi = False
    for p in wl.get("profiles", []):
        ss = p.get("execution_strategies", [])
        if len(ss) > 1:
            multi = True
        for s in ss:
            if int(s.get("runtime", 0)) == 0:
                zero = True
    f["has_zero_runtime"] = zero
    f["multi_strategy"] = multi
    cond = False
    nested = False
    pols = set()
    for g in wl.get("graphs", []):
        pols.add(g.get("release_policy"))
        nc = sum(1 for n in g.get("graph", []) if n.get("conditional"))
        if nc:
            cond = True
        if nc > 1:
            nested = True
    f["has_conditional"] = cond
    f["multi_conditional"] = nested
    f["release_policies"] = ",".join(sorted(str(p) for p in pols))
    f["closed_loop"] = "closed_loop" in pols
    f["timeout_set"] = "loop_timeout" in fl
    return f


def match(entry, prop, viol, feats):
    if entry.get("property") != prop:
        return False
    rule = entry.get("rule")
    if rule:
        vr = viol.get("rule", "")
        if rule.endswith("*"):
            if not vr.startswith(rule[:-1]):
                return False
        elif vr != rule:
            return False
    for k, v in (entry.get("match") or {}).items():
        have = viol.get(k, feats.get(k))
        if isinstance(v, list):
            if have not in v:
                return False
        elif have != v:
            return False
    return True


def classify(prop, viol, world, entries=None):
    """Returns the matching *open* entry or None."""
    entries = load() if entries is None else entries
    feats = world_features(world)
    for e in entries:
        if e.get("status") == "open" and match(e, prop, viol, feats):
            return e
    return None
