"""Process pool runner (DESIGN.md §3.4).  The parent never imports the repository (so
no solver library is loaded before the fork); each worker imports the bootstrap once.
"""
import itertools
import multiprocessing as mp
import os
import sys
import time
import traceback

NPROC = int(os.environ.get("VERIF_PROCS", "16"))


class BrokenCheck(Exception):
    pass


def _init():
    os.environ.setdefault("PYTHONHASHSEED", "0")
    sys.setrecursionlimit(10000)
    # solver libraries print banners to fd 1; results travel through the pool's pipes
    try:
        dn = os.open(os.devnull, os.O_WRONLY)
        os.dup2(dn, 1)
    except OSError:
        pass
    try:
        from . import bootstrap  # noqa: F401
        from . import harness

        harness.install_wrappers()
    except Exception:
        traceback.print_exc()
        raise


def _call(args):
    fn, chunk, extra = args
    out = []
    for item in chunk:
        try:
            out.append(("ok", fn(item, *extra)))
        except Exception as e:  # noqa: B902
            out.append(_classify(e, item))
    return out


def _classify(e, item):
    """An exception that escapes a job.  If its innermost frame is code of the
    repository (not of /verif) the *code under test* raised where the job did not
    expect it to: that is behaviour, reported as a violation of the check's property
    (rule code.raised_unexpectedly, replayable by re-running the work item).  Anything
    else is a failure of the machinery."""
    tb = traceback.extract_tb(sys.exc_info()[2])
    last = tb[-1] if tb else None
    name = type(e).__name__
    if last is not None and "/verif/" not in last.filename and name != "HarnessError" \
            and any("/verif/" in f.filename for f in tb):
        in_repo = [f for f in tb if "/verif/" not in f.filename
                   and "/site-packages/" not in f.filename
                   and "/lib/python" not in f.filename]
        if in_repo:
            f = in_repo[-1]
            where = f"{os.path.basename(f.filename)}:{f.lineno} in {f.name}"
            return ("ok", {
                "violations": [{
                    "rule": "code.raised_unexpectedly",
                    "msg": f"{name} raised from {where} during work item "
                           f"{repr(item)[:200]}",
                    "ident": f"{name}@{where}",
                    "case": {"raw_item": item},
                }]})
    return ("harness_error", traceback.format_exc())


def chunks(it, n):
    it = iter(it)
    while True:
        c = list(itertools.islice(it, n))
        if not c:
            return
        yield c


def pmap(fn, items, extra=(), chunk=8, procs=None, deadline=None):
    """Yield fn(item, *extra) for every item, in arbitrary order, using worker
    processes.  A failure of the machinery raises BrokenCheck.  If `deadline` (epoch
    seconds) passes, remaining items are dropped and the generator ends after setting
    pmap.capped = number of items not run."""
    procs = procs or NPROC
    pmap.capped = 0
    ctx = mp.get_context("fork")
    with ctx.Pool(procs, initializer=_init, maxtasksperchild=None) as pool:
        gen = ((fn, c, extra) for c in chunks(items, chunk))
        pending = []
        exhausted = False
        window = procs * 3

        def submit():
            nonlocal exhausted
            while not exhausted and len(pending) < window:
                if deadline is not None and time.time() > deadline:
                    rest = sum(len(a[1]) for a in gen)
                    pmap.capped += rest
                    exhausted = True
                    break
                try:
                    a = next(gen)
                except StopIteration:
                    exhausted = True
                    break
                pending.append(pool.apply_async(_call, (a,)))

        submit()
        while pending:
            r = pending.pop(0)
            res = r.get()
            submit()
            for status, val in res:
                if status != "ok":
                    pool.terminate()
                    raise BrokenCheck(val)
                yield val


pmap.capped = 0
