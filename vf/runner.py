"""Process pool runner (DESIGN.md §3.4).  The parent never imports the repository (so
no solver library is loaded before the fork); each worker imports the bootstrap once.
"""
import itertools
import multiprocessing as mp
import os
import sys
import time
import traceback

NPROC = int(os.environ.get("VERIF_PROCS", "16"))


class BrokenCheck(Exception):
    pass


def _init():
    os.environ.setdefault("PYTHONHASHSEED", "0")
    sys.setrecursionlimit(10000)
    # solver libraries print banners to fd 1; results travel through the pool's pipes
    try:
        dn = os.open(os.devnull, os.O_WRONLY)
        os.dup2(dn, 1)
    except OSError:
        pass
    try:
        from . import bootstrap  # noqa: F401
        from . import harness

        harness.install_wrappers()
    except Exception:
        traceback.print_exc()
        raise


def _call(args):
    fn, chunk, extra = args
    out = []
    for item in chunk:
        try:
            out.append(("ok", fn(item, *extra)))
        except Exception:
            out.append(("harness_error", traceback.format_exc()))
    return out


def chunks(it, n):
    it = iter(it)
    while True:
        c = list(itertools.islice(it, n))
        if not c:
            return
        yield c


def pmap(fn, items, extra=(), chunk=8, procs=None, deadline=None):
    """Yield fn(item, *extra) for every item, in arbitrary order, using worker
    processes.  A failure of the machinery raises BrokenCheck.  If `deadline` (epoch
    seconds) passes, remaining items are dropped and the generator ends after setting
    pmap.capped = number of items not run."""
    procs = procs or NPROC
    pmap.capped = 0
    ctx = mp.get_context("fork")
    with ctx.Pool(procs, initializer=_init, maxtasksperchild=None) as pool:
        gen = ((fn, c, extra) for c in chunks(items, chunk))
        pending = []
        exhausted = False
        window = procs * 3

        def submit():
            nonlocal exhausted
            while not exhausted and len(pending) < window:
                if deadline is not None and time.time() > deadline:
                    rest = sum(len(a[1]) for a in gen)
                    pmap.capped += rest
                    exhausted = True
                    break
                try:
                    a = next(gen)
                except StopIteration:
                    exhausted = True
                    break
                pending.append(pool.apply_async(_call, (a,)))

        submit()
        while pending:
            r = pending.pop(0)
            res = r.get()
            submit()
            for status, val in res:
                if status != "ok":
                    pool.terminate()
                    raise BrokenCheck(val)
                yield val


pmap.capped = 0
