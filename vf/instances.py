"""Scheduler *instances*: small cluster/workload states built with the real transition
methods, handed to the real `schedule()` of a policy (engines E3/E4, properties
C10-C12, C14).

An instance is a JSON-able dict:
  policy : ILP | TSG | TSC | Z3 | EDF | FIFO | LSF
  opts   : lookahead, release_taskgraphs, retract_schedules, enforce_deadlines, goal,
           plan_ahead, discretization, preemptive, batching
  cluster: [[{res: qty, ...} per worker] per pool]
  graphs : [{name, nodes, edges, strategies (per node: [[runtime, {res: q}], ...]),
             release, deadline (abs, per graph) | deadlines (per node),
             progress: {node: spec}}]
     spec: ["released"] | ["virtual"] | ["completed", start, worker, strategy]
         | ["running", start, worker, strategy] | ["scheduled", at, worker, strategy]
  now    : invocation time
Workers are addressed as "p<pool>w<worker>" (0-based).
"""
import random


class Built(object):
    pass


def build(inst):
    from utils import EventTime
    from workers import Worker, WorkerPool, WorkerPools
    from workload import (BranchPredictionPolicy, ExecutionStrategies,
                          ExecutionStrategy, Job, JobGraph, Placement, Resource,
                          Resources, Workload, WorkProfile)

    random.seed(inst.get("seed", 0))
    US = EventTime.Unit.US

    def ET(t):
        return EventTime(int(t), US)

    b = Built()
    b.inst = inst
    b.ET = ET
    # cluster
    pools = []
    b.worker_by_key = {}
    b.worker_caps = {}
    b.pool_of = {}
    for pi, workers in enumerate(inst["cluster"]):
        ws = []
        for wi, cap in enumerate(workers):
            # a key "CPU#2" stands for a second entry of the resource name CPU (cluster
            # files may list the same name several times; each entry gets its own id)
            w = Worker(f"W{pi}_{wi}", Resources(
                {Resource(n.split("#")[0]): q for n, q in cap.items()}))
            ws.append(w)
            b.worker_by_key[f"p{pi}w{wi}"] = w
            b.worker_caps[f"p{pi}w{wi}"] = dict(cap)
        p = WorkerPool(f"P{pi}", workers=ws)
        pools.append(p)
        for wi, w in enumerate(ws):
            b.pool_of[f"p{pi}w{wi}"] = p
    b.pools = pools
    b.worker_pools = WorkerPools(pools)
    b.key_of_worker_id = {w.id: k for k, w in b.worker_by_key.items()}
    # graphs
    tgs = {}
    b.tasks = {}
    b.strat = {}
    b.gdesc = {}
    now = inst["now"]
    for g in inst["graphs"]:
        jobs = {}
        for k, n in enumerate(g["nodes"]):
            es = ExecutionStrategies([
                ExecutionStrategy(Resources({Resource(r, "any"): q
                                             for r, q in dem.items()}), 1, ET(rt))
                for rt, dem in g["strategies"][k]])
            jobs[n] = Job(name=n, profile=WorkProfile(f"p_{g['name']}_{n}", es))
        jg = JobGraph(name=g["name"], release_policy=JobGraph.ReleasePolicy.fixed(
            ET(1), 1, start=ET(g.get("release", 0))))
        for n in g["nodes"]:
            jg.add_job(jobs[n])
        for i, j in g["edges"]:
            jg.add_child(jobs[g["nodes"][i]], jobs[g["nodes"][j]])
        tg = list(jg.generate_task_graphs(ET(10 ** 6)).values())[0]
        tgs[tg.name] = tg
        b.gdesc[tg.name] = g
        tmap = {t.name: t for t in tg.get_nodes()}
        for k, n in enumerate(g["nodes"]):
            t = tmap[n]
            b.tasks[(tg.name, n)] = t
            dl = (g["deadlines"][k] if "deadlines" in g else g["deadline"])
            t.update_deadline(ET(dl))
            b.strat[(tg.name, n)] = list(t.available_execution_strategies)
        # progress, in topological order
        order = list(g["nodes"])
        prog = g.get("progress", {})
        rel = g.get("release", 0)
        par = {n: [g["nodes"][i] for i, j in g["edges"] if g["nodes"][j] == n]
               for n in g["nodes"]}
        for n in order:
            spec = prog.get(n)
            t = tmap[n]
            if spec is None:
                spec = ["released"] if not par[n] else ["virtual"]
            kind = spec[0]
            if kind == "virtual":
                continue
            if kind == "released":
                # sources are released at the graph's release time once it has come;
                # other tasks were released by notify_task_completion of their parents
                if t.state.name == "VIRTUAL" and not par[n] and rel <= now:
                    t.release(ET(rel))
                continue
            _k, at, wkey, sidx = spec
            w = b.worker_by_key[wkey]
            pool = b.pool_of[wkey]
            st = b.strat[(tg.name, n)][sidx]
            pl = Placement.create_task_placement(
                task=t, placement_time=ET(at), worker_pool_id=pool.id, worker_id=w.id,
                execution_strategy=st)
            if kind == "scheduled":
                t.schedule(ET(min(at, now)), pl)
                continue
            # running / completed need the task released (sources at graph release,
            # others were released by their parents' completion below)
            if t.state.name == "VIRTUAL":
                t.release(ET(at))
            t.schedule(ET(at), pl)
            ok = pool.place_task(t, execution_strategy=st, worker_id=w.id)
            assert ok, f"instance construction: {n} does not fit {wkey}"
            t.start(ET(at))
            rt = st.runtime.time
            if kind == "completed":
                t.step(ET(at), ET(rt))
                pool.remove_task(ET(at + rt), t)
                t.finish()
                released, _c = tg.notify_task_completion(t, ET(at + rt))
                for c in released:
                    c.release(ET(at + rt))
            else:
                if now > at:
                    t.step(ET(at), ET(now - at))
    b.task_graphs = tgs
    b.workload = Workload.from_task_graphs(tgs)
    b.now = ET(now)
    # scheduler
    o = dict(inst.get("opts", {}))
    pol = inst["policy"]
    import schedulers as S

    common = dict(runtime=EventTime.zero())
    la = ET(o.get("lookahead", 0))
    enf = o.get("enforce_deadlines", False)
    if pol in ("EDF", "FIFO", "LSF"):
        cls = {"EDF": S.EDFScheduler, "FIFO": S.FIFOScheduler, "LSF": S.LSFScheduler}[pol]
        kw = dict(common, preemptive=o.get("preemptive", False))
        if pol != "LSF":
            kw["enforce_deadlines"] = enf
        b.scheduler = cls(**kw)
    elif pol == "ILP":
        b.scheduler = S.ILPScheduler(
            lookahead=la, enforce_deadlines=enf, policy=BranchPredictionPolicy.ALL,
            retract_schedules=o.get("retract_schedules", False),
            release_taskgraphs=o.get("release_taskgraphs", False),
            goal=o.get("goal", "max_goodput"), batching=o.get("batching", False),
            **common)
    elif pol == "TSG":
        b.scheduler = S.TetriSchedGurobiScheduler(
            lookahead=la, enforce_deadlines=enf,
            retract_schedules=o.get("retract_schedules", False),
            release_taskgraphs=o.get("release_taskgraphs", False),
            goal="max_goodput", time_limit=EventTime(-1, EventTime.Unit.S),
            time_discretization=ET(o.get("discretization", 1)),
            # plan_ahead "default": the scheduler's own default (-1 = derive the horizon
            # from the largest deadline offered in each invocation)
            plan_ahead=(EventTime.invalid() if o.get("plan_ahead") == "default"
                        else ET(o.get("plan_ahead", 10))), **common)
        b.scheduler._policy = BranchPredictionPolicy.ALL
    elif pol == "TSC":
        b.scheduler = S.TetriSchedCPLEXScheduler(
            lookahead=la, enforce_deadlines=enf,
            retract_schedules=o.get("retract_schedules", False),
            goal="max_goodput", batching=o.get("batching", False),
            time_limit=EventTime(-1, EventTime.Unit.S),
            time_discretization=ET(o.get("discretization", 1)),
            plan_ahead=ET(o.get("plan_ahead", 10)), **common)
        b.scheduler._policy = BranchPredictionPolicy.ALL
    elif pol == "Z3":
        b.scheduler = S.Z3Scheduler(
            lookahead=la, enforce_deadlines=enf, policy=BranchPredictionPolicy.ALL,
            retract_schedules=o.get("retract_schedules", False),
            release_taskgraphs=o.get("release_taskgraphs", False), **common)
    else:
        raise ValueError(pol)
    return b


def snapshot(b):
    """Every live getter and every task's state/times (for the no-side-effect rule)."""
    from workload import Resource

    out = []
    for k in sorted(b.worker_by_key):
        w = b.worker_by_key[k]
        per = []
        for n in sorted(b.worker_caps[k]):
            r = Resource(n, "any")
            per.append((n, w.resources.get_available_quantity(r),
                        w.resources.get_allocated_quantity(r)))
        out.append((k, tuple(per), tuple(sorted(t.unique_name
                                                for t in w.get_placed_tasks()))))
    for p in b.pools:
        out.append(tuple(sorted(t.unique_name for t in p.get_placed_tasks())))
    for key in sorted(b.tasks):
        t = b.tasks[key]
        out.append((key, t.state.name, t.release_time.time, t.deadline.time,
                    t.start_time.time, t.completion_time.time,
                    t._remaining_time.time if t._remaining_time is not None else None,
                    t._scheduler_placement.placement_time.time
                    if t._scheduler_placement is not None else None,
                    t.worker_pool_id, round(t.probability, 6)))
    return tuple(out)


def describe_placements(b, placements):
    """Decoded plan: {task key: None | (worker key or pool index, strategy index,
    start)} + list of problems found while decoding."""
    out = {}
    problems = []
    pool_ids = {p.id: i for i, p in enumerate(b.pools)}
    seen = {}
    for p in placements:
        if p.placement_type.name not in ("PLACE_TASK", "CANCEL_TASK"):
            continue
        t = p.task
        key = (t.task_graph, t.name)
        seen[key] = seen.get(key, 0) + 1
        if p.placement_type.name == "CANCEL_TASK":
            out[key] = "cancel"
            continue
        if not p.is_placed():
            out[key] = None
            continue
        sidx = None
        if p.execution_strategy is not None:
            for i, s in enumerate(b.strat.get(key, [])):
                if s is p.execution_strategy:
                    sidx = i
            if sidx is None:
                problems.append(("strategy.foreign", f"{key} placed with a strategy that "
                                                     f"is not one of its own"))
        if p.worker_pool_id not in pool_ids:
            problems.append(("pool.unknown", f"{key} placed on unknown pool"))
            continue
        wkey = None
        if p.worker_id is not None:
            wkey = b.key_of_worker_id.get(p.worker_id)
            if wkey is None:
                problems.append(("worker.unknown", f"{key} placed on unknown worker"))
                continue
            if b.pool_of[wkey].id != p.worker_pool_id:
                problems.append(("worker.not_in_pool", f"{key}: worker not in the pool"))
        out[key] = (wkey if wkey is not None else pool_ids[p.worker_pool_id], sidx,
                    p.placement_time.time)
    for k, n in seen.items():
        if n > 1:
            problems.append(("decision.duplicate", f"{k} received {n} decisions"))
    return out, problems
