"""E4: decision-space enumeration of the optimisation model the code builds.

The model object built by the real `schedule()` is captured in flight (class-level
wrappers on the scheduler's own `_add_variables` / `optimize` / `solve` /
`_add_objective`).  Every decision point -- each task unplaced, or at
(worker, strategy, start) -- is then fixed in that very model and the solver is asked
only whether *this point* is feasible (objective zeroed; for the CPLEX formulation the
captured rows are evaluated arithmetically).  Every feasible point is decoded with the
scheduler's own read-back and handed to the caller's oracle.  The plan the unmodified
`schedule()` returned must be one of the enumerated feasible points.
"""
import itertools


class Capture(object):
    def __init__(self):
        self.model = None
        self.ttv = None  # tasks_to_variables
        self.workers = None
        self.kind = None
        self.calls = 0


CAP = None
_INSTALLED = set()


def _install(kind):
    """Install capture wrappers for one scheduler family (idempotent)."""
    if kind in _INSTALLED:
        return
    _INSTALLED.add(kind)
    if kind in ("ILP", "TSG"):
        import gurobipy as gp
        from schedulers.ilp_scheduler import ILPScheduler
        from schedulers.tetrisched_gurobi_scheduler import TetriSchedGurobiScheduler

        cls = ILPScheduler if kind == "ILP" else TetriSchedGurobiScheduler
        orig_av = cls._add_variables

        def add_variables(self, *a, **k):
            r = orig_av(self, *a, **k)
            if CAP is not None:
                CAP.ttv = r
                CAP.workers = k.get("workers", a[-1] if a else None)
                CAP.kind = kind
            return r

        cls._add_variables = add_variables
        if "gp" not in _INSTALLED:
            _INSTALLED.add("gp")
            orig_opt = gp.Model.optimize

            def optimize(self, *a, **k):
                if CAP is not None and CAP.model is None:
                    CAP.model = self
                    CAP.calls += 1
                return orig_opt(self, *a, **k)

            gp.Model.optimize = optimize
    elif kind == "TSC":
        from docplex.mp.model import Model
        from schedulers.tetrisched_cplex_scheduler import TetriSchedCPLEXScheduler as C

        orig_av = C._add_variables

        def add_variables(self, *a, **k):
            r = orig_av(self, *a, **k)
            if CAP is not None:
                CAP.ttv = r
                CAP.workers = k.get("workers")
                CAP.kind = kind
            return r

        C._add_variables = add_variables
        orig_solve = Model.solve
        orig_end = Model.end

        def solve(self, *a, **k):
            if CAP is not None and CAP.model is None:
                CAP.model = self
                CAP.calls += 1
            return orig_solve(self, *a, **k)

        def end(self):
            if CAP is not None and CAP.model is self:
                return None  # kept alive for the enumeration; ended by the harness
            return orig_end(self)

        Model.solve = solve
        Model.end = end
        Model._vf_orig_end = orig_end
    elif kind == "Z3":
        from schedulers.z3_scheduler import Z3Scheduler as Z

        orig_av = Z._add_variables
        orig_obj = Z._add_objective

        def add_variables(self, sim_time, optimizer, tasks, workers):
            r = orig_av(self, sim_time, optimizer, tasks, workers)
            if CAP is not None:
                CAP.ttv = r
                CAP.workers = workers
                CAP.kind = kind
            return r

        def add_objective(self, optimizer, ttv, workload):
            if CAP is not None:
                CAP.model = optimizer
                CAP.hard = list(optimizer.assertions())
                CAP.calls += 1
            return orig_obj(self, optimizer, ttv, workload)

        Z._add_variables = add_variables
        Z._add_objective = add_objective


def run_captured(built, kind):
    """Call the real schedule() with capture on; returns (placements, capture)."""
    global CAP
    _install(kind)
    CAP = Capture()
    try:
        pl = built.scheduler.schedule(built.now, built.workload, built.worker_pools)
    finally:
        cap, CAP = CAP, None
    return pl, cap


def release(cap):
    if cap is not None and cap.kind == "TSC" and cap.model is not None:
        try:
            type(cap.model)._vf_orig_end(cap.model)
        except Exception:  # noqa: B902
            pass


# ------------------------------------------------------------------ option lists
def task_vars(cap):
    """[(unique name, TaskOptimizerVariables)] of the tasks the model decides."""
    out = []
    for name, tv in cap.ttv.items():
        if getattr(tv, "previously_placed", False):
            continue
        out.append((name, tv))
    return out


def options_ilp(cap, tv, horizon):
    import gurobipy as gp

    opts = [None]
    lb = int(tv.start_time.LB)
    for (w, s), var in tv._placed_on_worker_with_strategy.items():
        if isinstance(var, gp.Var):
            for t in range(lb, lb + horizon + 1):
                opts.append((w, s, t))
    return opts


def options_matrix(cap, tv, var_type):
    opts = [None]
    for (w, t, s), var in tv.space_time_matrix.items():
        if isinstance(var, var_type):
            opts.append((w, s, t))
    return opts


def options_z3(cap, tv, horizon, now):
    opts = [None]
    lb = max(now, tv.task.release_time.time)
    for w in cap.workers:
        for t in range(lb, lb + horizon + 1):
            opts.append((w, None, t))
    return opts


# ------------------------------------------------------------------ Gurobi back-end
class GurobiPoint(object):
    """Fix / unfix decisions in the captured Gurobi model."""

    def __init__(self, cap):
        from gurobipy import GRB

        self.cap = cap
        self.m = cap.model
        self.GRB = GRB
        m = self.m
        m.Params.OutputFlag = 0
        m.Params.Threads = 1
        m.Params.MIPGap = 0
        m.Params.TimeLimit = 20
        m.setObjective(0)
        m.update()
        self.orig = {v.index: (v.LB, v.UB) for v in m.getVars()}
        self.solves = 0

    def _set(self, var, lo, hi):
        # original bounds are read once, right after an update(): Gurobi applies
        # attribute changes lazily, a later read could return a stale (fixed) value
        k = var.index
        if k not in self.orig:
            raise RuntimeError("decision variable without recorded bounds")
        var.LB, var.UB = lo, hi

    def fix(self, tv, opt):
        import gurobipy as gp

        touched = []
        if self.cap.kind == "ILP":
            for (w, s), var in tv._placed_on_worker_with_strategy.items():
                if isinstance(var, gp.Var):
                    v = 1 if (opt is not None and (w, s) == (opt[0], opt[1])) else 0
                    self._set(var, v, v)
                    touched.append(var)
            if opt is not None:
                self._set(tv.start_time, opt[2], opt[2])
                touched.append(tv.start_time)
        else:
            for (w, t, s), var in tv.space_time_matrix.items():
                if isinstance(var, gp.Var):
                    v = 1 if (opt is not None and (w, s, t) == opt) else 0
                    self._set(var, v, v)
                    touched.append(var)
        return touched

    def unfix(self, touched):
        for var in touched:
            lo, hi = self.orig[var.index]
            var.LB, var.UB = lo, hi

    def feasible(self):
        self.m.optimize()
        self.solves += 1
        st = self.m.Status
        if st == self.GRB.OPTIMAL:
            return True
        if st in (self.GRB.INFEASIBLE, self.GRB.INF_OR_UNBD):
            return False
        raise RuntimeError(f"unexpected Gurobi status {st} on a fixed decision point")


def enumerate_gurobi(cap, option_lists, on_point, max_points=None):
    """DFS over the tasks; subtrees whose partial assignment is infeasible are pruned
    (pruning only removes points the model itself rejects).  `on_point(assignment)` is
    called on every feasible *complete* point while the model still holds the
    solution.  Returns counters."""
    gp_ = GurobiPoint(cap)
    tvs = task_vars(cap)
    stats = {"points": 0, "feasible": 0, "pruned_subtrees": 0, "solves": 0,
             "capped": 0}
    total = 1
    for _n, tv in tvs:
        total *= len(option_lists[_n])
    stats["space"] = total

    def rec(i, assignment):
        if max_points is not None and stats["points"] >= max_points:
            stats["capped"] = 1
            return
        if i == len(tvs):
            stats["points"] += 1
            if gp_.feasible():
                stats["feasible"] += 1
                on_point(dict(assignment))
            return
        name, tv = tvs[i]
        for opt in option_lists[name]:
            touched = gp_.fix(tv, opt)
            assignment[name] = opt
            if i + 1 < len(tvs):
                if gp_.feasible():
                    rec(i + 1, assignment)
                else:
                    stats["pruned_subtrees"] += 1
                    rest = 1
                    for n2, _tv2 in tvs[i + 1:]:
                        rest *= len(option_lists[n2])
                    stats["points"] += rest
            else:
                rec(i + 1, assignment)
            del assignment[name]
            gp_.unfix(touched)

    rec(0, {})
    stats["solves"] = gp_.solves
    return stats


# ------------------------------------------------------------------ CPLEX back-end
def enumerate_docplex(cap, option_lists, on_point, max_points=None):
    """The TetriSched-CPLEX model is linear in the decision binaries; a fully fixed
    point is judged by evaluating every captured row (equality rows with a single
    unknown define the dependent variables first).  Variables are keyed by their
    model index (docplex overloads == on variables)."""
    m = cap.model
    tvs = task_vars(cap)
    rows = []
    bounds = {}
    for ct in m.iter_constraints():
        lhs, rhs = ct.left_expr, ct.right_expr
        terms = {}
        const = 0.0
        for e, sign in ((lhs, 1.0), (rhs, -1.0)):
            if hasattr(e, "iter_terms"):
                for v, c in e.iter_terms():
                    terms[v.index] = terms.get(v.index, 0.0) + sign * c
                    bounds[v.index] = (v.lb, v.ub)
                const += sign * e.get_constant()
            else:
                const += sign * float(e)
        rows.append((terms, const, ct.sense.name, ct.name))
    stats = {"points": 0, "feasible": 0, "pruned_subtrees": 0, "solves": 0, "capped": 0,
             "rows": len(rows)}
    total = 1
    for n, _tv in tvs:
        total *= len(option_lists[n])
    stats["space"] = total
    names = [n for n, _ in tvs]

    class Sol(object):
        """Minimal stand-in for docplex' SolveSolution used by get_placements()."""

        def __init__(self, values):
            self.values = values

        def get_value(self, var):
            return self.values.get(var.index, 0)

    for combo in itertools.product(*[option_lists[n] for n in names]):
        if max_points is not None and stats["points"] >= max_points:
            stats["capped"] = 1
            break
        stats["points"] += 1
        val = {}
        for (name, tv), opt in zip(tvs, combo):
            for (w, t, s), var in tv.space_time_matrix.items():
                if not isinstance(var, int):
                    val[var.index] = 1 if (opt is not None and (w, s, t) == opt) else 0
                    bounds[var.index] = (var.lb, var.ub)
        changed = True
        while changed:
            changed = False
            for terms, const, sense, _nm in rows:
                if sense != "EQ":
                    continue
                unknown = [v for v in terms if v not in val]
                if len(unknown) == 1:
                    v = unknown[0]
                    rest = const + sum(c * val[x] for x, c in terms.items() if x != v)
                    val[v] = -rest / terms[v]
                    changed = True
        ok = True
        for terms, const, sense, _nm in rows:
            if any(v not in val for v in terms):
                ok = None
                break
            x = const + sum(c * val[v] for v, c in terms.items())
            if sense == "EQ" and abs(x) > 1e-6:
                ok = False
            elif sense == "LE" and x > 1e-6:
                ok = False
            elif sense == "GE" and x < -1e-6:
                ok = False
            if not ok:
                break
        if ok is None:
            raise RuntimeError("docplex row with undetermined variable after fixing "
                               "all decision variables")
        if ok:
            for v, x in val.items():
                lo, hi = bounds.get(v, (None, None))
                if lo is not None and (x < lo - 1e-6 or x > hi + 1e-6):
                    ok = False
                    break
        stats["solves"] += 1
        if ok:
            stats["feasible"] += 1
            on_point(dict(zip(names, combo)), Sol(val))
    return stats


# ------------------------------------------------------------------ z3 back-end
def enumerate_z3(cap, option_lists, on_point, max_points=None):
    from z3 import z3

    s = z3.Solver()
    for a in cap.hard:
        s.add(a)
    tvs = task_vars(cap)
    stats = {"points": 0, "feasible": 0, "pruned_subtrees": 0, "solves": 0, "capped": 0}
    total = 1
    for n, _tv in tvs:
        total *= len(option_lists[n])
    stats["space"] = total

    def cons(tv, opt):
        if opt is None:
            return [tv.is_placed == False]  # noqa: E712
        return [tv.is_placed == True, tv.placed_on_worker == opt[0],  # noqa: E712
                tv.start_time == opt[2]]

    def rec(i, assignment):
        if max_points is not None and stats["points"] >= max_points:
            stats["capped"] = 1
            return
        if i == len(tvs):
            stats["points"] += 1
            stats["feasible"] += 1  # feasibility was established by the last push
            on_point(dict(assignment), s.model())
            return
        name, tv = tvs[i]
        for opt in option_lists[name]:
            s.push()
            for c in cons(tv, opt):
                s.add(c)
            stats["solves"] += 1
            r = s.check()
            if r == z3.sat:
                assignment[name] = opt
                rec(i + 1, assignment)
                del assignment[name]
            else:
                if r != z3.unsat:
                    raise RuntimeError(f"z3 returned {r} on a fixed decision point")
                rest = 1
                for n2, _tv2 in tvs[i + 1:]:
                    rest *= len(option_lists[n2])
                stats["points"] += rest
                if i + 1 < len(tvs):
                    stats["pruned_subtrees"] += 1
            s.pop()

    rec(0, {})
    return stats
