"""In-process execution of one closed world through the real `main.main()`.

A *world* is a plain dict:
    workload : dict   (content of the workload JSON/YAML file)
    cluster  : list   (content of the worker profile file)
    flags    : dict   (flag name -> value; rendered as --name=value)
    tape     : list | None   (None = real randomness, i.e. exactly `python main.py`)
    fmt      : 'json' | 'yaml'
    preload  : bool   (Clockwork worlds: models put on the live workers before the loop)

Class-level wrappers (installed once per process, no edits to /repo) forward the
observation points listed in DESIGN.md §3.5 to the monitor of the run in progress.
"""
import json
import os
import shutil
import signal
import sys
import tempfile
import traceback
import atexit

from . import bootstrap as B
from .tape import Tape, TapeRandomModule, TapeUniform, TapeDivergence

import simulator as _simulator
import workers.workers as _workers
import workload.tasks as _tasks
import workload.workload as _workload
from utils import EventTime

Simulator = _simulator.Simulator
EventType = _simulator.EventType

_SCRATCH = None


def scratch_dir():
    global _SCRATCH
    if _SCRATCH is None or not os.path.isdir(_SCRATCH):
        _SCRATCH = tempfile.mkdtemp(prefix="vf_scratch_")
        atexit.register(shutil.rmtree, _SCRATCH, True)
    return _SCRATCH


class HarnessError(Exception):
    """A failure of the verification machinery itself (exit status 2)."""


class Watchdog(Exception):
    """Raised inside a run when a liveness watchdog trips (an observation, not a bug
    of the harness)."""

    def __init__(self, kind, detail):
        super().__init__(f"{kind}: {detail}")
        self.kind = kind
        self.detail = detail


class _Alarm(Exception):
    pass


ZERO_STEP_LIMIT = 2000
EVENT_LIMIT = 20000
WALL_LIMIT_S = 30

# The monitor of the run in progress (or None).  Monitors implement any subset of the
# `on_*` methods used below.
CURRENT = None


class NullMonitor(object):
    """Base class: every hook is a no-op."""

    violations = ()

    def on_sim_init(self, sim):
        pass

    def on_step_pre(self, sim, step):
        pass

    def on_step_post(self, sim, step):
        pass

    def on_event_pre(self, sim, ev):
        pass

    def on_event_post(self, sim, ev, ret):
        pass

    def on_sched_pre(self, sim, ev):
        pass

    def on_sched_post(self, sim, ev, placements, exc):
        pass

    def on_worker_op(self, worker, op, args, exc):
        pass

    def on_task_op(self, task, op, args, pre_state, exc):
        pass

    def on_notify(self, tg, task, time, ret, exc):
        pass

    def on_cancel(self, tg, task, time, ret, exc):
        pass

    def on_offer(self, wl, args, kwargs, ret):
        pass

    def on_tg_completion(self, wl, tg, time, ret):
        pass

    def on_end(self, sim, outcome):
        pass


# --------------------------------------------------------------------------- wrappers
_INSTALLED = False


def _wrap(cls, name, maker):
    orig = cls.__dict__[name]
    new = maker(orig)
    new.__name__ = getattr(orig, "__name__", name)
    new.__wrapped__ = orig
    setattr(cls, name, new)


def install_wrappers():
    global _INSTALLED
    if _INSTALLED:
        return
    _INSTALLED = True

    def mk_init(orig):
        def __init__(self, *a, **k):
            orig(self, *a, **k)
            m = CURRENT
            if m is not None:
                m.sim = self
                self._vf_zero_steps = 0
                self._vf_events = 0
                m.on_sim_init(self)

        return __init__

    _wrap(Simulator, "__init__", mk_init)

    def mk_step(orig):
        def step(self, step_size=EventTime(1, EventTime.Unit.US)):
            m = CURRENT
            if m is None:
                return orig(self, step_size)
            if step_size.time == 0:
                self._vf_zero_steps += 1
                if self._vf_zero_steps > ZERO_STEP_LIMIT:
                    raise Watchdog(
                        "zero_step",
                        f"{self._vf_zero_steps} consecutive zero-length steps at "
                        f"t={self._simulator_time.time}",
                    )
            else:
                self._vf_zero_steps = 0
            m.on_step_pre(self, step_size)
            r = orig(self, step_size)
            m.on_step_post(self, step_size)
            return r

        return step

    _wrap(Simulator, "_Simulator__step", mk_step)

    def mk_handle(orig):
        def handle(self, event):
            m = CURRENT
            if m is None:
                return orig(self, event)
            self._vf_events += 1
            if self._vf_events > EVENT_LIMIT:
                raise Watchdog("event_limit", f"{self._vf_events} events handled")
            m.on_event_pre(self, event)
            r = orig(self, event)
            m.on_event_post(self, event, r)
            return r

        return handle

    _wrap(Simulator, "_Simulator__handle_event", mk_handle)

    def mk_runsched(orig):
        def run_scheduler(self, event):
            m = CURRENT
            if m is None:
                return orig(self, event)
            m.on_sched_pre(self, event)
            try:
                r = orig(self, event)
            except (Watchdog, _Alarm, HarnessError):
                raise
            except BaseException as e:
                m.on_sched_post(self, event, None, e)
                raise
            m.on_sched_post(self, event, self._last_scheduler_placements, None)
            return r

        return run_scheduler

    _wrap(Simulator, "_Simulator__run_scheduler", mk_runsched)

    def mk_worker_op(opname):
        def maker(orig):
            def op(self, *a, **k):
                m = CURRENT
                if m is None:
                    return orig(self, *a, **k)
                try:
                    r = orig(self, *a, **k)
                except (Watchdog, _Alarm, HarnessError):
                    raise
                except BaseException as e:
                    m.on_worker_op(self, opname, (a, k), e)
                    raise
                m.on_worker_op(self, opname, (a, k), None)
                return r

            return op

        return maker

    for opname in ("place_task", "remove_task", "load_profile", "evict_profile"):
        _wrap(_workers.Worker, opname, mk_worker_op(opname))

    def mk_task_op(opname):
        def maker(orig):
            def op(self, *a, **k):
                m = CURRENT
                if m is None:
                    return orig(self, *a, **k)
                pre = self._state
                try:
                    r = orig(self, *a, **k)
                except (Watchdog, _Alarm, HarnessError):
                    raise
                except BaseException as e:
                    m.on_task_op(self, opname, (a, k), pre, e)
                    raise
                m.on_task_op(self, opname, (a, k), pre, None)
                return r

            return op

        return maker

    for opname in ("release", "schedule", "unschedule", "start", "finish", "cancel",
                   "preempt", "resume"):
        _wrap(_tasks.Task, opname, mk_task_op(opname))

    def mk_notify(orig):
        def notify_task_completion(self, task, finish_time):
            m = CURRENT
            if m is None:
                return orig(self, task, finish_time)
            try:
                r = orig(self, task, finish_time)
            except (Watchdog, _Alarm, HarnessError):
                raise
            except BaseException as e:
                m.on_notify(self, task, finish_time, None, e)
                raise
            m.on_notify(self, task, finish_time, r, None)
            return r

        return notify_task_completion

    _wrap(_tasks.TaskGraph, "notify_task_completion", mk_notify)

    def mk_cancel(orig):
        def cancel(self, task, time):
            m = CURRENT
            if m is None:
                return orig(self, task, time)
            try:
                r = orig(self, task, time)
            except (Watchdog, _Alarm, HarnessError):
                raise
            except BaseException as e:
                m.on_cancel(self, task, time, None, e)
                raise
            m.on_cancel(self, task, time, r, None)
            return r

        return cancel

    _wrap(_tasks.TaskGraph, "cancel", mk_cancel)

    def mk_offer(orig):
        def get_schedulable_tasks(self, *a, **k):
            r = orig(self, *a, **k)
            m = CURRENT
            if m is not None:
                m.on_offer(self, a, k, r)
            return r

        return get_schedulable_tasks

    _wrap(_workload.Workload, "get_schedulable_tasks", mk_offer)

    def mk_tgc(orig):
        def notify_task_graph_completion(self, task_graph, finish_time):
            r = orig(self, task_graph, finish_time)
            m = CURRENT
            if m is not None:
                m.on_tg_completion(self, task_graph, finish_time, r)
            return r

        return notify_task_graph_completion

    _wrap(_workload.Workload, "notify_task_graph_completion", mk_tgc)


# --------------------------------------------------------------------------- running
def flags_to_argv(flags):
    argv = []
    for k, v in flags.items():
        if isinstance(v, bool):
            argv.append(f"--{k}" if v else f"--no{k}")
        elif isinstance(v, (list, tuple)):
            argv.append(f"--{k}={','.join(str(x) for x in v)}")
        else:
            argv.append(f"--{k}={v}")
    return argv


def write_world_files(world, directory, stem="w"):
    fmt = world.get("fmt") or "json"
    wl_path = os.path.join(directory, f"{stem}_workload.{fmt}")
    cl_path = os.path.join(directory, f"{stem}_cluster.{fmt}")
    if fmt == "json":
        with open(wl_path, "w") as f:
            json.dump(world["workload"], f)
        with open(cl_path, "w") as f:
            json.dump(world["cluster"], f)
    else:
        import yaml

        with open(wl_path, "w") as f:
            yaml.safe_dump(world["workload"], f)
        with open(cl_path, "w") as f:
            yaml.safe_dump(world["cluster"], f)
    return wl_path, cl_path


def world_argv(world, wl_path, cl_path):
    fl = dict(world.get("flags", {}))
    fl.setdefault("random_seed", 0)
    fl["execution_mode"] = world.get("fmt") or "json"
    fl["workload_profile_path"] = wl_path
    fl["worker_profile_path"] = cl_path
    return flags_to_argv(fl)


def _alarm_handler(signum, frame):
    raise _Alarm()


class Outcome(object):
    __slots__ = ("status", "exc_type", "exc_msg", "exc_where", "rows", "tape",
                 "end_time", "wall")

    def __init__(self):
        self.status = None  # 'ok' | 'crash' | 'watchdog' | 'timeout'
        self.exc_type = None
        self.exc_msg = None
        self.exc_where = None
        self.rows = None
        self.tape = None
        self.end_time = None
        self.wall = 0.0


def _innermost_frame(tb):
    last = None
    for fs in traceback.extract_tb(tb):
        last = fs
    return last


def run_world(world, monitor=None, wall_limit=WALL_LIMIT_S):
    """Execute one world through the real main.main().  Returns an Outcome; the
    monitor (if any) has been fed every observation and `on_end`."""
    import time as _time

    global CURRENT
    install_wrappers()
    d = scratch_dir()
    wl_path, cl_path = write_world_files(world, d)
    argv = world_argv(world, wl_path, cl_path)
    out = Outcome()
    mon = monitor if monitor is not None else NullMonitor()
    mon.sim = None
    tape_spec = world.get("tape")
    tape = None
    B.parse_flags(argv)
    del B.ROWS[:]
    B.reset_rng()
    saved_rng = EventTime._rng
    saved_random = _tasks.random
    if tape_spec is not None:
        tape = Tape(tape_spec, world.get("tape_arities"))
        _tasks.random = TapeRandomModule(B.REAL_RANDOM, tape)
        EventTime._rng = TapeUniform(tape)
    out.tape = tape
    adv_saved = None
    if world.get("adv") is not None:
        # the scheduling policy becomes part of the environment (vf/adv.py)
        import schedulers as _sched
        from . import adv as _adv
        _adv.TAPE, _adv.CONFIG = tape, world["adv"]
        adv_saved = _sched.EDFScheduler
        _sched.EDFScheduler = _adv.make_class()
    CURRENT = mon
    old = signal.signal(signal.SIGALRM, _alarm_handler)
    signal.alarm(int(wall_limit))
    t0 = _time.time()
    try:
        try:
            if world.get("preload"):
                _with_preload(world)
            else:
                B.main.main([])
            out.status = "ok"
        except TapeDivergence as e:
            raise HarnessError(f"tape divergence: {e}")
        except Watchdog as e:
            out.status = "watchdog"
            out.exc_type = e.kind
            out.exc_msg = e.detail
        except _Alarm:
            out.status = "timeout"
            out.exc_type = "wall"
            out.exc_msg = f"run exceeded {wall_limit}s"
        except HarnessError:
            raise
        except BaseException as e:  # noqa: B902  (SystemExit from absl included)
            fs = _innermost_frame(sys.exc_info()[2])
            where = f"{fs.filename}:{fs.lineno}" if fs else "?"
            if fs and "/verif/" in fs.filename and not isinstance(e, AssertionError):
                raise HarnessError(
                    "exception inside the harness: " + traceback.format_exc()
                )
            if fs and "/verif/" in fs.filename:
                raise HarnessError(
                    "assertion inside the harness: " + traceback.format_exc()
                )
            out.status = "crash"
            out.exc_type = type(e).__name__
            out.exc_msg = str(e)[:300]
            out.exc_where = where.replace(B.REPO + "/", "")
    finally:
        signal.alarm(0)
        signal.signal(signal.SIGALRM, old)
        CURRENT = None
        _tasks.random = saved_random
        EventTime._rng = saved_rng
        if adv_saved is not None:
            _sched.EDFScheduler = adv_saved
            _adv.TAPE = _adv.CONFIG = None
    out.wall = _time.time() - t0
    out.rows = list(B.ROWS)
    sim = getattr(mon, "sim", None)
    if sim is not None:
        out.end_time = sim._simulator_time.time
    try:
        mon.on_end(sim, out)
    except HarnessError:
        raise
    except Exception:
        raise HarnessError("monitor.on_end failed: " + traceback.format_exc())
    return out


def _with_preload(world):
    """Clockwork worlds: run main.main() but put every work profile on every live
    worker (zero-length loading strategy) before the loop starts -- what the
    commented-out `scheduler.start()` call of the simulator used to do."""
    orig_simulate = Simulator.simulate

    def simulate(self):
        pls = self._scheduler.start(
            EventTime.zero(), self._workload_loader.workload.work_profiles,
            self._worker_pools,
        )
        for p in pls:
            wp = self._worker_pools.get_worker_pool(p.worker_pool_id)
            wp.load_profile(p.work_profile, p.loading_strategy, p.worker_id)
        return orig_simulate(self)

    Simulator.simulate = simulate
    try:
        B.main.main([])
    finally:
        Simulator.simulate = orig_simulate


def run_subprocess(world, timeout=120, env_extra=None, python="/venv/bin/python"):
    """Execute the same world as a fresh `python main.py` process; returns the rows of
    the CSV file it wrote (list of str), the return code and stderr tail."""
    import subprocess

    d = tempfile.mkdtemp(prefix="vf_sub_")
    try:
        wl_path, cl_path = write_world_files(world, d)
        csv = os.path.join(d, "out.csv")
        argv = world_argv(world, wl_path, cl_path)
        argv += [f"--log_dir={d}", f"--csv_file_name={csv}", "--log_file_name=out.log",
                 "--log_level=info"]
        env = dict(os.environ)
        env.pop("PYTHONHASHSEED", None)
        if env_extra:
            env.update(env_extra)
        p = subprocess.run(
            [python, os.path.join(B.REPO, "main.py")] + argv,
            cwd=B.REPO, env=env, capture_output=True, text=True, timeout=timeout,
        )
        rows = []
        if os.path.exists(csv):
            with open(csv) as f:
                rows = [ln.rstrip("\n") for ln in f]
        return rows, p.returncode, p.stderr[-2000:]
    finally:
        shutil.rmtree(d, ignore_errors=True)
