"""Closed-world generators (DESIGN.md §3.2).  Every slice is a finite set that is
enumerated completely; `VERIF_SEED` permutes names and sets --random_seed, it never
selects a subset of a slice."""
import itertools
import random as _random


# ------------------------------------------------------------------ DAG shapes
def _canon(n, edges):
    best = None
    for perm in itertools.permutations(range(n)):
        e = tuple(sorted((perm[a], perm[b]) for a, b in edges))
        if best is None or e < best:
            best = e
    return best


_SHAPES = {}


def dag_shapes(n):
    """All DAG shapes on n nodes up to isomorphism; each as a tuple of edges (i, j)
    with i < j (so 0..n-1 is a topological order)."""
    if n in _SHAPES:
        return _SHAPES[n]
    pairs = [(i, j) for i in range(n) for j in range(i + 1, n)]
    seen = {}
    for mask in range(1 << len(pairs)):
        edges = tuple(p for k, p in enumerate(pairs) if mask >> k & 1)
        c = _canon(n, edges)
        if c not in seen:
            seen[c] = edges
    out = sorted(seen.values(), key=lambda e: (len(e), e))
    _SHAPES[n] = out
    return out


def all_labelled_dags(n):
    """Every labelled DAG on n nodes given as edge tuples over node ids 0..n-1, all
    topological labelings included (i.e. every acyclic digraph)."""
    pairs = [(i, j) for i in range(n) for j in range(n) if i != j]
    # enumerate via permutations of upper-triangular graphs, de-duplicated
    seen = set()
    ut = [(i, j) for i in range(n) for j in range(i + 1, n)]
    for perm in itertools.permutations(range(n)):
        for mask in range(1 << len(ut)):
            edges = frozenset((perm[a], perm[b]) for k, (a, b) in enumerate(ut)
                              if mask >> k & 1)
            if edges not in seen:
                seen.add(edges)
    del pairs
    return sorted(tuple(sorted(e)) for e in seen)


# ------------------------------------------------------------------ naming
_LETTERS = "ABCDEFGHJK"


def names_for(n, seed):
    rng = _random.Random(seed * 7919 + n)
    ls = list(_LETTERS[:max(n, 1)])
    if seed:
        rng.shuffle(ls)
    return [f"T{c}" for c in ls[:n]]


# ------------------------------------------------------------------ building blocks
def strat(runtime, **res):
    """strat(2, CPU=1) -> strategy dict; resource keys 'CPU' mean CPU:any, a key like
    'GPU__g0' means GPU:g0."""
    rr = {}
    for k, q in res.items():
        if "__" in k:
            n, i = k.split("__")
            rr[f"{n}:{i}"] = q
        else:
            rr[f"{k}:any"] = q
    return {"batch_size": 1, "runtime": runtime, "resource_requirements": rr}


def workload_from_dag(names, edges, strategies, release, deadline_variance=(0, 0),
                      gname="G", extra_node=None):
    """strategies: list (per node) of lists of strategy dicts."""
    profiles = []
    nodes = []
    for k, nm in enumerate(names):
        profiles.append({"name": f"p_{nm}", "execution_strategies": strategies[k]})
        nd = {"name": nm, "work_profile": f"p_{nm}",
              "children": [names[j] for (i, j) in edges if i == k]}
        if extra_node and k in extra_node:
            nd.update(extra_node[k])
        nodes.append(nd)
    g = {"name": gname, "graph": nodes, "deadline_variance": list(deadline_variance)}
    g.update(release)
    return {"profiles": profiles, "graphs": [g]}


def res_list(**res):
    out = []
    for k, q in res.items():
        if "__" in k:
            n, i = k.split("__")
            out.append({"name": f"{n}:{i}", "quantity": q})
        else:
            out.append({"name": k, "quantity": q})
    return out


def cluster(*pools):
    """cluster([dict(CPU=1)], [dict(CPU=1), dict(CPU=2)]) -> two pools."""
    out = []
    for pi, workers in enumerate(pools, 1):
        out.append({
            "name": f"WP{pi}",
            "workers": [{"name": f"W{pi}_{wi}", "resources": res_list(**w)}
                        for wi, w in enumerate(workers, 1)],
        })
    return out


CLUSTERS_CPU = {
    "1x1": cluster([dict(CPU=1)]),
    "1x2": cluster([dict(CPU=2)]),
    "2w": cluster([dict(CPU=1), dict(CPU=1)]),
    "2p": cluster([dict(CPU=1)], [dict(CPU=1)]),
}

RELEASES = {
    "one": {"release_policy": "fixed", "period": 1, "invocations": 1},
    "two@0": {"release_policy": "fixed", "period": 0, "invocations": 2},
    "two@1": {"release_policy": "fixed", "period": 1, "invocations": 2},
}

BASE_FLAGS = {"scheduler_runtime": 0}


def mk_world(workload, clus, flags, seed=0, tape=None, tag=None, **kw):
    fl = dict(BASE_FLAGS)
    fl.update(flags)
    fl["random_seed"] = seed
    w = {"workload": workload, "cluster": clus, "flags": fl, "tape": tape,
         "tag": tag or ""}
    w.update(kw)
    return w


# ------------------------------------------------------------------ policies
GREEDY = {
    "EDF": {"scheduler": "EDF"},
    "FIFO": {"scheduler": "FIFO"},
    "LSF": {"scheduler": "LSF"},
}
GREEDY_ENF = {
    "EDF+enf": {"scheduler": "EDF", "enforce_deadlines": True},
    "FIFO+enf": {"scheduler": "FIFO", "enforce_deadlines": True},
    "EDF+enf+drop": {"scheduler": "EDF", "enforce_deadlines": True,
                     "drop_skipped_tasks": True},
}


def planner_policies(full=False):
    P = {}
    for nm, sched in (("ILP", "ILP"), ("TSG", "TetriSched_Gurobi"),
                      ("TSC", "TetriSched_CPLEX")):
        base = {"scheduler": sched, "enforce_deadlines": True,
                "scheduler_plan_ahead": 12, "scheduler_time_discretization": 1}
        if sched == "ILP":
            base = {"scheduler": sched, "enforce_deadlines": True,
                    "ilp_goal": "max_goodput"}
        P[nm] = dict(base)
        P[nm + "+la"] = dict(base, scheduler_lookahead=20)
        if sched != "TetriSched_CPLEX":
            P[nm + "+rtg"] = dict(base, release_taskgraphs=True)
            P[nm + "+rtg+retract"] = dict(base, release_taskgraphs=True,
                                          retract_schedules=True)
        P[nm + "+la+retract"] = dict(base, scheduler_lookahead=20,
                                     retract_schedules=True)
        P[nm + "+drop"] = dict(base, drop_skipped_tasks=True)
        if full:
            P[nm + "+la+drop"] = dict(base, scheduler_lookahead=20,
                                      drop_skipped_tasks=True)
    return P


# ------------------------------------------------------------------ slices
def s_dag(policies, seed=0, max_n=4, runtimes=(1, 2), clusters=None, releases=None,
          slacks=((0, 0), (100, 100)), min_n=1, flags_extra=None):
    clusters = clusters or list(CLUSTERS_CPU)
    releases = releases or list(RELEASES)
    for n in range(min_n, max_n + 1):
        names = names_for(n, seed)
        for edges in dag_shapes(n):
            for rts in itertools.product(runtimes, repeat=n):
                strategies = [[strat(r, CPU=1)] for r in rts]
                for ck in clusters:
                    for rk in releases:
                        for sl in slacks:
                            wl = workload_from_dag(names, edges, strategies,
                                                   RELEASES[rk], sl)
                            for pk, pf in policies.items():
                                fl = dict(pf)
                                if flags_extra:
                                    fl.update(flags_extra)
                                yield mk_world(
                                    wl, CLUSTERS_CPU[ck], fl, seed, tape=[],
                                    tag=f"S-dag n={n} e={edges} rt={rts} c={ck} "
                                        f"r={rk} sl={sl} p={pk}")


def s_zero(policies, seed=0):
    """Zero-length and equal-length tasks, simultaneous releases (kept separate so
    that the zero-runtime finding cannot mask other termination problems)."""
    for n in (1, 2, 3):
        names = names_for(n, seed)
        for edges in dag_shapes(n):
            for rts in itertools.product((0, 1), repeat=n):
                if 0 not in rts:
                    continue
                strategies = [[strat(r, CPU=1)] for r in rts]
                for ck in ("1x1", "2w"):
                    for rk in ("one", "two@0"):
                        wl = workload_from_dag(names, edges, strategies, RELEASES[rk],
                                               (100, 100))
                        for pk, pf in policies.items():
                            yield mk_world(
                                wl, CLUSTERS_CPU[ck], pf, seed, tape=[],
                                tag=f"S-zero n={n} e={edges} rt={rts} c={ck} r={rk} "
                                    f"p={pk}")


RES_MENU = [
    ("c1", dict(CPU=1)), ("c2", dict(CPU=2)), ("g1", dict(GPU=1)),
    ("c1g1", dict(CPU=1, GPU=1)),
]
WORKER_MENU = {
    "C1": dict(CPU=1), "C2": dict(CPU=2), "C1G1": dict(CPU=1, GPU=1),
    "C2G1": dict(CPU=2, GPU=1), "C1Gid": dict(CPU=1, GPU__g0=1),
    # one resource name split over two ids with unequal quantities: 'any' requests
    # smaller than what the first id holds, and requests spanning both ids
    "Cid21": dict(CPU__a=2, CPU__b=1),
    # room for one and a half of a {CPU 2, GPU 1} request
    "C3G2": dict(CPU=3, GPU=2),
}


def s_res(policies, seed=0, full=False):
    """Heterogeneous multi-type resources."""
    shapes = {
        1: [()],
        2: [(), ((0, 1),)],
        3: [(), ((0, 1), (1, 2)), ((0, 1), (0, 2)), ((0, 2), (1, 2))],
    }
    strat_sets = []
    for (k1, r1) in RES_MENU:
        strat_sets.append([strat(2, **r1)])
    for (k1, r1), (k2, r2) in itertools.permutations(RES_MENU, 2):
        strat_sets.append([strat(1, **r1), strat(3, **r2)])
    strat_sets.append([strat(2, GPU__g0=1)])
    strat_sets.append([strat(1, GPU__g0=1), strat(2, CPU=1)])
    # two types in unequal amounts, listed in both orders
    strat_sets.append([strat(2, CPU=2, GPU=1)])
    strat_sets.append([strat(2, GPU=1, CPU=2)])
    clusters = [
        cluster([WORKER_MENU["C1G1"]]),
        cluster([WORKER_MENU["C2"], WORKER_MENU["C1Gid"]]),
        cluster([WORKER_MENU["C1"]], [WORKER_MENU["C2G1"]]),
        cluster([WORKER_MENU["C1Gid"]], [WORKER_MENU["C1G1"]]),
        cluster([WORKER_MENU["Cid21"]]),
        cluster([WORKER_MENU["C3G2"]]),
    ]
    ns = (1, 2, 3) if full else (1, 2)
    for n in ns:
        names = names_for(n, seed)
        if n == 3 and not full:
            continue
        sets_n = strat_sets if n <= 2 else strat_sets[:6] + strat_sets[-4:]
        for edges in shapes[n]:
            for combo in itertools.product(range(len(sets_n)), repeat=n):
                if n == 2 and not full and abs(combo[0] - combo[1]) > 6:
                    pass
                strategies = [sets_n[c] for c in combo]
                for ci, cl in enumerate(clusters):
                    wl = workload_from_dag(names, edges, strategies, RELEASES["two@0"],
                                           (100, 100))
                    for pk, pf in policies.items():
                        yield mk_world(wl, cl, pf, seed, tape=[],
                                       tag=f"S-res n={n} e={edges} s={combo} c={ci} "
                                           f"p={pk}")


# conditional templates: list of node dicts builders
def cond_templates(names=None, extra=False):
    """Each template: (tag, nodes) where nodes is the 'graph' list of the workload."""
    T = []

    def node(nm, children=(), **kw):
        d = {"name": nm, "work_profile": "p_" + nm, "children": list(children)}
        d.update(kw)
        return d

    for probs in ((0.5, 0.5), (0.25, 0.75), (1.0, 0.0)):
        for la, lb in ((1, 1), (2, 1), (1, 0), (0, 2)):
            # S -> C(cond) -> {A1..Ala | B1..Blb} -> J(terminal) -> K
            nodes = []
            a = [f"A{i}" for i in range(1, la + 1)]
            b = [f"B{i}" for i in range(1, lb + 1)]
            if la == 0 or lb == 0:
                # an empty branch is expressed with a pass-through node of runtime 1
                # (the loader cannot give a probability to an edge)
                continue
            nodes.append(node("S", ["C"]))
            nodes.append(node("C", [a[0], b[0]], conditional=True))
            for i, x in enumerate(a):
                nodes.append(node(x, [a[i + 1]] if i + 1 < len(a) else ["J"],
                                  **({"probability": probs[0]} if i == 0 else {})))
            for i, x in enumerate(b):
                nodes.append(node(x, [b[i + 1]] if i + 1 < len(b) else ["J"],
                                  **({"probability": probs[1]} if i == 0 else {})))
            nodes.append(node("J", ["K"], terminal=True))
            nodes.append(node("K"))
            T.append((f"if2 p={probs} len=({la},{lb})", nodes))
    # three branches
    nodes = [node("C", ["A1", "B1", "D1"], conditional=True),
             node("A1", ["J"], probability=0.5),
             node("B1", ["B2"], probability=0.25), node("B2", ["J"]),
             node("D1", ["J"], probability=0.25),
             node("J", [], terminal=True)]
    T.append(("if3", nodes))
    # nested conditional inside a branch
    nodes = [node("C", ["A1", "B1"], conditional=True),
             node("A1", ["C2"], probability=0.5),
             node("C2", ["X1", "Y1"], conditional=True),
             node("X1", ["J2"], probability=0.5),
             node("Y1", ["J2"], probability=0.5),
             node("J2", ["J"], terminal=True),
             node("B1", ["J"], probability=0.5),
             node("J", ["K"], terminal=True), node("K")]
    T.append(("nested", nodes))
    # two conditionals in sequence
    nodes = [node("C", ["A1", "B1"], conditional=True),
             node("A1", ["J"], probability=0.5), node("B1", ["J"], probability=0.5),
             node("J", ["C2"], terminal=True),
             node("C2", ["X1", "Y1"], conditional=True),
             node("X1", ["J2"], probability=0.75), node("Y1", ["J2"], probability=0.25),
             node("J2", [], terminal=True)]
    T.append(("seq", nodes))
    # conditional with a side task joining after the terminal (diamond around it)
    nodes = [node("S", ["C", "P"]),
             node("C", ["A1", "B1"], conditional=True),
             node("A1", ["J"], probability=0.5), node("B1", ["J"], probability=0.5),
             node("J", ["K"], terminal=True), node("P", ["K"]), node("K")]
    T.append(("side", nodes))
    if extra:
        # a branch head with a second, ordinary parent outside the conditional: the
        # conditional's completion releases the chosen child although that other
        # parent may still be running; only the readiness test at placement time keeps
        # it from starting (only generated on request: C02)
        nodes = [node("C", ["A1", "B1"], conditional=True), node("P", ["A1"]),
                 node("A1", ["J"], probability=0.5), node("B1", ["J"], probability=0.5),
                 node("J", [], terminal=True)]
        T.append(("xparent", nodes))
    return T


def s_cond(policies, seed=0, resolve_modes=(False, True), clusters=("1x1", "1x2", "2p"),
           releases=("one", "two@0"), runtimes=(1, 2), orders=("fwd", "rev"),
           only=None):
    """`orders`: the order in which the nodes are *listed* in the workload file (the
    loader accepts any); 'rev' registers children before their parents and later
    conditionals before earlier ones."""
    templates = []
    for tag, nodes in cond_templates(extra=only is not None):
        if only is not None and tag not in only:
            continue
        templates.append((tag, nodes, nodes))
        if "rev" in orders and not tag.startswith("if2 p=(0.25") \
                and not tag.startswith("if2 p=(1.0"):
            templates.append((tag + " listed=rev", list(reversed(nodes)), nodes))
    for tag, nodes, fwd in templates:
        names = [n["name"] for n in fwd]  # runtimes do not depend on the listing
        for rt_mode in runtimes:
            profiles = []
            for k, nm in enumerate(names):
                r = rt_mode if (k % 2 == 0) else 3 - rt_mode
                profiles.append({"name": "p_" + nm,
                                 "execution_strategies": [strat(r, CPU=1)]})
            for rk in releases:
                g = {"name": "G", "graph": nodes, "deadline_variance": [100, 100]}
                g.update(RELEASES[rk])
                wl = {"profiles": profiles, "graphs": [g]}
                for ck in clusters:
                    for rm in resolve_modes:
                        for pk, pf in policies.items():
                            fl = dict(pf)
                            if rm:
                                fl["resolve_conditionals_at_submission"] = True
                            yield mk_world(
                                wl, CLUSTERS_CPU[ck], fl, seed, tape=[],
                                tag=f"S-cond {tag} rt={rt_mode} r={rk} c={ck} "
                                    f"resolve={rm} p={pk}")


def s_time(policies, seed=0, full=False, max_n=3):
    freqs = (-1, 0, 1, 3)
    delays = (0, 1, 2)
    wf = (False, True)
    upd = (-1, 2)
    tmo = (None, 5, 9)
    for n in range(1, max_n + 1):
        names = names_for(n, seed)
        shapes = dag_shapes(n)
        for edges in shapes:
            rts_list = [tuple([2] * n), tuple([1 + (k % 2) for k in range(n)])]
            for rts in rts_list:
                strategies = [[strat(r, CPU=1)] for r in rts]
                for ck in ("1x1", "2w"):
                    wl = workload_from_dag(names, edges, strategies, RELEASES["two@1"],
                                           (100, 100))
                    for fq, dl, w, u, t in itertools.product(freqs, delays, wf, upd,
                                                             tmo):
                        if not full and (u == 2 and t == 9):
                            pass
                        for pk, pf in policies.items():
                            fl = dict(pf, scheduler_frequency=fq, scheduler_delay=dl,
                                      scheduler_run_at_worker_free=w,
                                      workload_update_interval=u)
                            if t is not None:
                                fl["loop_timeout"] = t
                            yield mk_world(
                                wl, CLUSTERS_CPU[ck], fl, seed, tape=[],
                                tag=f"S-time n={n} e={edges} rt={rts} c={ck} f={fq} "
                                    f"d={dl} wf={w} u={u} t={t} p={pk}")


def s_var(policies, seed=0, max_n=3):
    for n in range(1, max_n + 1):
        names = names_for(n, seed)
        for edges in dag_shapes(n):
            strategies = [[strat(2 + (k % 2) * 2, CPU=1)] for k in range(n)]
            for ck in ("1x1", "2w"):
                for var in (50, 100):
                    wl = workload_from_dag(names, edges, strategies, RELEASES["one"],
                                           (100, 100))
                    for pk, pf in policies.items():
                        fl = dict(pf, runtime_variance=var)
                        yield mk_world(wl, CLUSTERS_CPU[ck], fl, seed, tape=[],
                                       tag=f"S-var n={n} e={edges} c={ck} v={var} "
                                           f"p={pk}")


def s_closed(policies, seed=0, flags_extra=None, tag_extra=""):
    for n in (1, 2, 3):
        names = names_for(n, seed)
        for edges in dag_shapes(n):
            strategies = [[strat(1 + (k % 2), CPU=1)] for k in range(n)]
            for conc in (1, 2):
                for inv in (1, 2, 3):
                    for ck in ("1x1", "2w"):
                        for sl in ((0, 0), (100, 100)):
                            rel = {"release_policy": "closed_loop", "concurrency": conc,
                                   "invocations": inv}
                            wl = workload_from_dag(names, edges, strategies, rel, sl)
                            for pk, pf in policies.items():
                                yield mk_world(
                                    wl, CLUSTERS_CPU[ck], dict(pf, **(flags_extra or {})),
                                    seed, tape=[],
                                    tag=f"S-closed{tag_extra} n={n} e={edges} conc={conc} "
                                        f"inv={inv} c={ck} sl={sl} p={pk}")


def s_plan(policies, seed=0, max_n=3, with_cond=True, clusters=("1x1", "2w"),
           releases=("one", "two@0"), slacks=((0, 0), (100, 100))):
    """Plan-ahead policies on small DAGs and the conditional templates."""
    for n in range(1, max_n + 1):
        names = names_for(n, seed)
        for edges in dag_shapes(n):
            rts = tuple(1 + (k % 2) for k in range(n))
            strategies = [[strat(r, CPU=1)] for r in rts]
            for ck in clusters:
                for rk in releases:
                    for sl in slacks:
                        wl = workload_from_dag(names, edges, strategies, RELEASES[rk],
                                               sl)
                        for pk, pf in policies.items():
                            yield mk_world(
                                wl, CLUSTERS_CPU[ck], pf, seed, tape=[],
                                tag=f"S-plan n={n} e={edges} c={ck} r={rk} sl={sl} "
                                    f"p={pk}")
    if with_cond:
        for w in s_cond(policies, seed, resolve_modes=(False,), clusters=("1x2",),
                        releases=("one",), runtimes=(1,)):
            w["tag"] = "S-plan/" + w["tag"]
            yield w


def two_sinks(n, edges):
    """Shapes in which one sink can be cancelled while another part of the graph is
    still alive."""
    sinks = [k for k in range(n) if not any(i == k for i, _j in edges)]
    return len(sinks) >= 2


def s_adv(seed=0, max_n=3, bound=2, cap=1500, modes=None, clusters=("1x1", "2p"),
          releases=("one", "two@1"), cancel=False, min_n=1, delays=(0, 1, 3),
          shape_filter=None):
    """Worlds whose scheduler is the tape-driven adversary of vf/adv.py: every legal
    decision sequence (bounded deviations from 'place now') over small DAGs."""
    modes = modes or {
        "plain": {},
        "retract": {"retract": True},
        "rtg+retract": {"retract": True, "rtg": True},
    }
    for n in range(min_n, max_n + 1):
        names = names_for(n, seed)
        for edges in dag_shapes(n):
            if shape_filter is not None and not shape_filter(n, edges):
                continue
            strategies = [[strat(2 + (k % 2), CPU=1)] for k in range(n)]
            # the first task has a second, slower strategy: a re-placement may change
            # the strategy (and with it the runtime) of a task that is still SCHEDULED
            strategies[0] = [strat(2, CPU=1), strat(4, CPU=1)]
            for ck in clusters:
                for rk in releases:
                    wl = workload_from_dag(names, edges, strategies, RELEASES[rk],
                                           (100, 100))
                    for mk, mode in modes.items():
                        adv = dict(mode, delays=list(delays), cancel=cancel)
                        fl = {"scheduler": "EDF"}
                        if mode.get("retract"):
                            fl["retract_schedules"] = True
                        if mode.get("rtg"):
                            fl["release_taskgraphs"] = True
                        if mode.get("drop"):
                            fl["drop_skipped_tasks"] = True
                        yield mk_world(
                            wl, CLUSTERS_CPU[ck], fl, seed, tape=[],
                            tag=f"S-adv n={n} e={edges} c={ck} r={rk} m={mk}"
                                f"{' +cancel' if cancel else ''}",
                            adv=adv, tape_bound=bound, tape_cap=cap,
                            tape_bounded_kinds=["choice", "random", "sched"])


def s_adv_cond(seed=0, bound=1, cap=4000, cancel=False, templates=None,
               modes=None):
    """The adversarial scheduler on the conditional templates: with whole task graphs
    released it is offered (and by default places) *both* branches before the
    conditional resolves, so every resolution meets SCHEDULED tasks on the untaken
    branch -- the speculative-planner situation, for every branch outcome."""
    modes = modes or {"rtg": {"rtg": True}, "rtg+retract": {"rtg": True, "retract": True}}
    for tag, nodes in cond_templates():
        if templates is not None and not any(tag.startswith(t) for t in templates):
            continue
        if tag.startswith("if2 p=(0.25") or tag.startswith("if2 p=(1.0"):
            continue
        names = [n["name"] for n in nodes]
        profiles = [{"name": "p_" + nm,
                     "execution_strategies": [strat(1 + (k % 2), CPU=1)]}
                    for k, nm in enumerate(names)]
        g = {"name": "G", "graph": nodes, "deadline_variance": [100, 100]}
        g.update(RELEASES["one"])
        wl = {"profiles": profiles, "graphs": [g]}
        for ck in ("1x2", "2p"):
            for mk, mode in modes.items():
                adv = dict(mode, delays=[0, 2], cancel=cancel)
                fl = {"scheduler": "EDF", "release_taskgraphs": True}
                if mode.get("retract"):
                    fl["retract_schedules"] = True
                yield mk_world(wl, CLUSTERS_CPU[ck], fl, seed, tape=[],
                               tag=f"S-adv-cond {tag} c={ck} m={mk}",
                               adv=adv, tape_bound=bound, tape_cap=cap,
                               tape_bounded_kinds=["choice", "random", "sched"])


def s_plan_ms(policies, seed=0, max_n=2):
    """Plan-ahead policies on tasks with *menus* (slow on CPU / fast on GPU) on a worker
    with one unit of each, second graph instance arriving 1us later: later invocations
    re-plan SCHEDULED tasks with another strategy."""
    clus = cluster([dict(CPU=1, GPU=1)])
    menus = [
        [strat(3, CPU=1), strat(1, GPU=1)],
        [strat(2, CPU=1)],
        [strat(1, GPU=1), strat(4, CPU=1)],
    ]
    for n in range(1, max_n + 1):
        names = names_for(n, seed)
        for edges in dag_shapes(n):
            for combo in itertools.product(range(len(menus)), repeat=n):
                if all(len(menus[c]) == 1 for c in combo):
                    continue
                strategies = [menus[c] for c in combo]
                for rk in ("two@1", "two@0"):
                    for sl in ((50, 50), (100, 100)):
                        wl = workload_from_dag(names, edges, strategies, RELEASES[rk], sl)
                        for pk, pf in policies.items():
                            yield mk_world(
                                wl, clus, pf, seed, tape=[],
                                tag=f"S-plan-ms n={n} e={edges} m={combo} r={rk} "
                                    f"sl={sl} p={pk}")
    # three independent tasks: one that only runs on the GPU, one that only runs on the
    # CPU and one with a menu -- with both units busy the menu task is planned for the
    # future, and the arrival of the second instance makes the planner revise that plan
    names = names_for(3, seed)
    for g_rt, c_rt in itertools.product((2, 4), (2, 3)):
        for menu in (menus[0], menus[2], [strat(2, GPU=1), strat(3, CPU=1)]):
            for order in itertools.permutations(range(3)):
                if order[0] > order[1] and order[1] > order[2]:
                    continue
                base = [[strat(g_rt, GPU=1)], [strat(c_rt, CPU=1)], menu]
                strategies = [base[o] for o in order]
                for rk in ("two@1",):
                    for sl in ((50, 50), (100, 100), (200, 200)):
                        wl = workload_from_dag(names, (), strategies, RELEASES[rk], sl)
                        for pk, pf in policies.items():
                            yield mk_world(
                                wl, clus, pf, seed, tape=[],
                                tag=f"S-plan-ms n=3 g={g_rt} c={c_rt} "
                                    f"menu={[x['runtime'] for x in menu]} o={order} "
                                    f"sl={sl} p={pk}")


def count(gen):
    return sum(1 for _ in gen)


# ------------------------------------------------------------------ Clockwork worlds
def s_cw(seed=0, k_max=3, full=False):
    """Clockwork arrival histories: k requests of <= 2 models, every release vector in
    {0..3}^k (non-decreasing per model is *not* assumed), every deadline class vector,
    1-2 workers, loading variants, both goals."""
    classes = {"hopeless": 1, "tight": 3, "loose": 10}

    def model(name):
        return {"name": name,
                "loading_strategies": [{"batch_size": 1, "runtime": 1,
                                        "resource_requirements": {"RAM:any": 1}}],
                "execution_strategies": [
                    {"batch_size": 1, "runtime": 2,
                     "resource_requirements": {"GPU:any": 1}},
                    {"batch_size": 2, "runtime": 3,
                     "resource_requirements": {"GPU:any": 1}}]}

    clusters = {
        "1w": cluster([dict(GPU=1, RAM=2)]),
        "2w": cluster([dict(GPU=1, RAM=2), dict(GPU=1, RAM=2)]),
        # room for one model only: with two models the policy has to evict one to load
        # the other (only used with --scheduler_run_load)
        "1w-tight": cluster([dict(GPU=1, RAM=1)]),
    }
    loadings = ("preload", "run_load", "none") if full else ("preload", "run_load")
    for k in range(1, k_max + 1):
        rel_vectors = list(itertools.product((0, 1, 2, 3), repeat=k)) if (full or k < 3) \
            else [r for r in itertools.product((0, 1, 2), repeat=k)]
        for rels in rel_vectors:
            if list(rels) != sorted(rels):
                continue  # request i arrives no later than request i+1 (names are free)
            for cls in itertools.product(sorted(classes), repeat=k):
                for models in ([("M1",) * k] + ([("M1",) * (k - 1) + ("M2",)]
                                               if k >= 2 else [])):
                    graphs = []
                    for i in range(k):
                        graphs.append({
                            "name": f"Q{i}",
                            "graph": [{"name": "R", "work_profile": models[i],
                                       "slo": classes[cls[i]]}],
                            "release_policy": "fixed", "period": 1, "invocations": 1,
                            "start": rels[i], "deadline_variance": [0, 0]})
                    wl = {"profiles": [model("M1"), model("M2")], "graphs": graphs}
                    for ck, cl in clusters.items():
                        if ck == "2w" and k == 1:
                            continue
                        if ck == "1w-tight" and len(set(models)) < 2:
                            continue
                        for ld in loadings:
                            if ck == "1w-tight" and ld != "run_load":
                                continue
                            for goal in ("clockwork", "least_slack"):
                                fl = {"scheduler": "Clockwork", "clockwork_goal": goal,
                                      "unique_work_profiles": True}
                                if ld == "run_load":
                                    fl["scheduler_run_load"] = True
                                yield mk_world(
                                    wl, cl, fl, seed, tape=[], preload=(ld == "preload"),
                                    tag=f"S-cw k={k} rel={rels} cls={cls} m={models} "
                                        f"c={ck} load={ld} goal={goal}")


def s_cw_hetero(seed=0, k_max=3, full=False):
    """Clockwork with strategies of *different* resource needs on a partly busy
    worker: model MH runs fast alone on both GPUs (batch 1, 1us, GPU 2) or slowly in a
    pair on one (batch 2, 3us, GPU 1); a long request of another model holds one GPU
    from t=0, so the fast strategy cannot start while requests that are already too
    late for the slow one are still worth keeping for the fast one -- the per-strategy
    queues of the model then differ in length.  Every arrival vector in {0..3}^k and
    every deadline class vector of k <= 3 MH requests."""
    classes = {"hopeless": 1, "tight": 3, "loose": 10}
    mh = {"name": "MH",
          "loading_strategies": [{"batch_size": 1, "runtime": 1,
                                  "resource_requirements": {"RAM:any": 1}}],
          "execution_strategies": [
              {"batch_size": 1, "runtime": 1, "resource_requirements": {"GPU:any": 2}},
              {"batch_size": 2, "runtime": 3, "resource_requirements": {"GPU:any": 1}}]}
    mb = {"name": "MB",
          "loading_strategies": [{"batch_size": 1, "runtime": 1,
                                  "resource_requirements": {"RAM:any": 1}}],
          "execution_strategies": [
              {"batch_size": 1, "runtime": 6, "resource_requirements": {"GPU:any": 1}}]}
    clus = cluster([dict(GPU=2, RAM=2)])
    for k in range(2, k_max + 1):
        for rels in itertools.product((0, 1, 2, 3), repeat=k):
            if list(rels) != sorted(rels):
                continue
            for cls in itertools.product(sorted(classes), repeat=k):
                for blocker in ((True,) if not full else (True, False)):
                    graphs = []
                    if blocker:
                        graphs.append({
                            "name": "B0", "graph": [{"name": "R", "work_profile": "MB",
                                                     "slo": 20}],
                            "release_policy": "fixed", "period": 1, "invocations": 1,
                            "start": 0, "deadline_variance": [0, 0]})
                    for i in range(k):
                        graphs.append({
                            "name": f"Q{i}",
                            "graph": [{"name": "R", "work_profile": "MH",
                                       "slo": classes[cls[i]]}],
                            "release_policy": "fixed", "period": 1, "invocations": 1,
                            "start": rels[i], "deadline_variance": [0, 0]})
                    wl = {"profiles": [mh, mb], "graphs": graphs}
                    for goal in ("clockwork", "least_slack"):
                        fl = {"scheduler": "Clockwork", "clockwork_goal": goal,
                              "unique_work_profiles": True}
                        yield mk_world(
                            wl, clus, fl, seed, tape=[], preload=True,
                            tag=f"S-cw-hetero k={k} rel={rels} cls={cls} "
                                f"blocker={blocker} goal={goal}")


def s_cw_slo(seed=0, k_max=2, full=False):
    """Clockwork requests of ONE model with *different* relative SLOs that queue up
    behind a long request of another model on the only GPU (busy until t=6), so that
    the order of their absolute deadlines and the order of their relative SLOs can
    disagree when the queue is finally served: every arrival vector in {0..5}^k
    (non-decreasing) and every SLO vector in {2..9}^k, both goals.  A batch of two
    (3us) may be on time for the queue head and late for the request behind it."""
    m1 = {"name": "M1",
          "loading_strategies": [{"batch_size": 1, "runtime": 1,
                                  "resource_requirements": {"RAM:any": 1}}],
          "execution_strategies": [
              {"batch_size": 1, "runtime": 2, "resource_requirements": {"GPU:any": 1}},
              {"batch_size": 2, "runtime": 3, "resource_requirements": {"GPU:any": 1}}]}
    mb = {"name": "MB",
          "loading_strategies": [{"batch_size": 1, "runtime": 1,
                                  "resource_requirements": {"RAM:any": 1}}],
          "execution_strategies": [
              {"batch_size": 1, "runtime": 6, "resource_requirements": {"GPU:any": 1}}]}
    clus = cluster([dict(GPU=1, RAM=2)])
    rel_dom = (0, 1, 2, 3, 4, 5)
    slo_dom = (2, 3, 4, 5, 6, 7, 8, 9)
    for k in range(2, k_max + 1):
        if k >= 3 and not full:
            rel_dom, slo_dom = (1, 3, 5), (3, 5, 6, 7)
        for rels in itertools.product(rel_dom, repeat=k):
            if list(rels) != sorted(rels):
                continue
            for slos in itertools.product(slo_dom, repeat=k):
                graphs = [{
                    "name": "B0", "graph": [{"name": "R", "work_profile": "MB",
                                             "slo": 20}],
                    "release_policy": "fixed", "period": 1, "invocations": 1,
                    "start": 0, "deadline_variance": [0, 0]}]
                for i in range(k):
                    graphs.append({
                        "name": f"Q{i}",
                        "graph": [{"name": "R", "work_profile": "M1", "slo": slos[i]}],
                        "release_policy": "fixed", "period": 1, "invocations": 1,
                        "start": rels[i], "deadline_variance": [0, 0]})
                wl = {"profiles": [m1, mb], "graphs": graphs}
                for goal in ("clockwork", "least_slack"):
                    fl = {"scheduler": "Clockwork", "clockwork_goal": goal,
                          "unique_work_profiles": True}
                    yield mk_world(
                        wl, clus, fl, seed, tape=[], preload=True,
                        tag=f"S-cw-slo k={k} rel={rels} slo={slos} goal={goal}")


def s_plan_batch(policies, seed=0, k_max=3):
    """Planners with --scheduler_enable_batching: k <= 3 single-task graphs that share
    one work profile (so they can be batched), every arrival vector in {0,1,2}^k, every
    deadline-class vector, a strategy for one task and a slower one for a batch of two,
    with and without a task of another profile that occupies the only CPU first."""
    classes = {"tight": 3, "mid": 6, "loose": 12}
    shared = {"name": "MS", "execution_strategies": [
        {"batch_size": 1, "runtime": 2, "resource_requirements": {"CPU:any": 1}},
        {"batch_size": 2, "runtime": 3, "resource_requirements": {"CPU:any": 1}}]}
    other = {"name": "MO", "execution_strategies": [
        {"batch_size": 1, "runtime": 4, "resource_requirements": {"CPU:any": 1}}]}
    clus = cluster([dict(CPU=1)])
    for k in range(2, k_max + 1):
        for rels in itertools.product((0, 1, 2), repeat=k):
            if list(rels) != sorted(rels):
                continue
            for cls in itertools.product(sorted(classes), repeat=k):
                for blocker in (False, True):
                    graphs = []
                    if blocker:
                        graphs.append({"name": "B0", "graph": [
                            {"name": "R", "work_profile": "MO", "slo": 5}],
                            "release_policy": "fixed", "period": 1, "invocations": 1,
                            "start": 0, "deadline_variance": [0, 0]})
                    for i in range(k):
                        graphs.append({"name": f"Q{i}", "graph": [
                            {"name": "R", "work_profile": "MS",
                             "slo": classes[cls[i]]}],
                            "release_policy": "fixed", "period": 1, "invocations": 1,
                            "start": rels[i], "deadline_variance": [0, 0]})
                    wl = {"profiles": [shared, other], "graphs": graphs}
                    for pk, pf in policies.items():
                        fl = dict(pf, scheduler_enable_batching=True,
                                  unique_work_profiles=True)
                        yield mk_world(wl, clus, fl, seed, tape=[],
                                       tag=f"S-plan-batch k={k} rel={rels} cls={cls} "
                                           f"blocker={blocker} p={pk}")
