"""Exhaustive instance grammars for the scheduler-input properties (C10-C12, C14)."""
import itertools

SHAPES = {
    1: {"one": []},
    2: {"pair": [], "chain2": [(0, 1)]},
    3: {"chain3": [(0, 1), (1, 2)], "fork": [(0, 1), (0, 2)], "join": [(0, 2), (1, 2)],
        "skip": [(0, 1), (0, 2), (2, 1)], "indep3": [], "chain+1": [(0, 1)]},
    4: {"diamond": [(0, 1), (0, 2), (1, 3), (2, 3)], "chain4": [(0, 1), (1, 2), (2, 3)],
        "fork3": [(0, 1), (0, 2), (0, 3)]},
}
NAMES = ["A", "B", "C", "D"]
RT = [2, 1, 2, 1]

CLUSTERS = {
    "c2": [[{"CPU": 2}]],
    "c1": [[{"CPU": 1}]],
    "c1c1": [[{"CPU": 1}, {"CPU": 1}]],
    "c2|c1": [[{"CPU": 2}], [{"CPU": 1}]],
    "c2g1": [[{"CPU": 2, "GPU": 1}]],
    "c1c2": [[{"CPU": 1}, {"CPU": 2}]],
    "c2c1": [[{"CPU": 2}, {"CPU": 1}]],
    # one unit of each of two types: tasks that use only one type never meet the
    # others in that type's capacity rows
    "c1g1": [[{"CPU": 1, "GPU": 1}]],
}

OPTS = {
    "ILP": {
        "rtg": dict(release_taskgraphs=True, enforce_deadlines=True),
        "la": dict(lookahead=20, enforce_deadlines=True),
        "la+retract": dict(lookahead=20, retract_schedules=True, enforce_deadlines=True),
        "plain": dict(enforce_deadlines=True),
        "rtg+retract": dict(release_taskgraphs=True, retract_schedules=True,
                            enforce_deadlines=True),
    },
    "TSG": {
        "rtg": dict(release_taskgraphs=True, enforce_deadlines=True),
        "la": dict(lookahead=20, enforce_deadlines=True),
        "rtg+retract": dict(release_taskgraphs=True, retract_schedules=True,
                            enforce_deadlines=True),
        "plain": dict(enforce_deadlines=True),
    },
    "TSC": {
        "la": dict(lookahead=20, enforce_deadlines=True),
        "plain": dict(enforce_deadlines=True),
        "la+retract": dict(lookahead=20, retract_schedules=True, enforce_deadlines=True),
    },
    "Z3": {
        "rtg": dict(release_taskgraphs=True, enforce_deadlines=True),
        "la": dict(lookahead=20, enforce_deadlines=False),
    },
    "EDF": {"plain": {}, "enf": dict(enforce_deadlines=True)},
    "FIFO": {"plain": {}, "enf": dict(enforce_deadlines=True)},
    "LSF": {"plain": {}},
}


def strategies_for(n, variant):
    """variant 0: one strategy per task; 1: the first task has a fast-big and a
    slow-small strategy; 2: the last task has two strategies; 3: GPU alternative."""
    out = []
    for k in range(n):
        ss = [[RT[k], {"CPU": 1}]]
        if variant == 1 and k == 0:
            ss = [[1, {"CPU": 2}], [3, {"CPU": 1}]]
        if variant == 2 and k == n - 1:
            ss = [[RT[k], {"CPU": 1}], [RT[k] + 2, {"CPU": 1}]]
        if variant == 3 and k == 0:
            ss = [[1, {"GPU": 1}], [RT[k] + 1, {"CPU": 1}]]
        if variant == 4:
            ss = [[1, {"CPU": 2}], [3, {"CPU": 1}]] if k == 0 else [[RT[k], {"CPU": 2}]]
        if variant == 5:
            # disjoint resource types: the first task only uses the GPU, the last one
            # too, the ones in between only the CPU
            ss = [[RT[k], {"GPU": 1}]] if k in (0, n - 1) and n > 1 \
                else [[RT[k], {"CPU": 1}]]
        if variant == 6:
            ss = [[RT[k], {"CPU": 1}]] if k == 0 else [[RT[k], {"GPU": 1}]]
        if variant == 7:
            # a first task that needs the whole 2-CPU worker, small successors
            ss = [[2, {"CPU": 2}]] if k == 0 else [[RT[k], {"CPU": 1}]]
        if variant == 8:
            # every task has a fast and a slow strategy of the same shape: a plan made
            # earlier may have picked either, and `remaining_time` of a SCHEDULED task
            # (the chosen runtime) differs from its slowest runtime
            ss = [[1, {"CPU": 1}], [3, {"CPU": 1}]]
        out.append(ss)
    return out


def progress_patterns(n, edges, cluster_key, strategies, now):
    """Mixed-state inputs: what has already happened to the first task(s)."""
    first = NAMES[0]
    w0 = "p0w0"
    rt0 = strategies[0][0][0]
    pats = {"fresh": {}}
    pats["running"] = {first: ["running", now - 1, w0, 0]}
    # just started with its slowest strategy: at least two more microseconds to run, so
    # "right after now" and "after the predecessor's expected finish" are different
    slow = max(range(len(strategies[0])), key=lambda i: strategies[0][i][0])
    pats["running_long"] = {first: ["running", now, w0, slow]}
    pats["completed"] = {first: ["completed", max(now - rt0, 0), w0, 0]}
    pats["scheduled"] = {first: ["scheduled", now + 2, w0, 0]}
    if n >= 3 and not any(j == 1 for _i, j in edges):
        # a second source that is already running next to a fresh first one
        pats["other_running"] = {NAMES[1]: ["running", now - 1, w0, 0]}
    if n == 3 and sorted(edges) == [(0, 2), (1, 2)]:
        # a join with one parent COMPLETED and the other SCHEDULED by an earlier plan
        # (either way round, and with each of the scheduled parent's strategies): under
        # retraction the scheduled parent may or may not be offered again, and the join
        # is offered because the completed parent released the graph
        for tag, sched, done in (("a", 0, 1), ("b", 1, 0)):
            rtd = strategies[done][0][0]
            for sidx in range(len(strategies[sched])):
                pats[f"join_mixed_{tag}{sidx}"] = {
                    NAMES[sched]: ["scheduled", now + 2, w0, sidx],
                    NAMES[done]: ["completed", max(now - rtd, 0), w0, 0]}
    return pats


def gen(policies, tier, seed=0, shapes=None, variants=(0, 1), clusters=("c2", "c1c1"),
        progress=("fresh", "running", "completed", "scheduled"), deadlines=("loose",),
        opt_keys=None, now=3, max_n=3, blocker=False):
    """`blocker`: a task of another graph is running on the first worker (one CPU, five
    more microseconds), so that a task needing the whole worker cannot be hosted *now*
    while smaller ones can."""
    for n in range(1, max_n + 1):
        for sname, edges in SHAPES[n].items():
            if shapes is not None and sname not in shapes:
                continue
            for variant in variants:
                strategies = strategies_for(n, variant)
                for ck in clusters:
                    if variant in (3, 5, 6) and "g1" not in ck:
                        continue
                    pats = progress_patterns(n, edges, ck, strategies, now)
                    for pk in progress:
                        if pk not in pats:
                            continue
                        prog = pats[pk]
                        # the construction must fit: a running/completed first task
                        # with the 2-CPU strategy needs a 2-CPU worker
                        used = next(iter(prog.values()))[3] if prog else 0
                        need = strategies[0][used][1] if NAMES[0] in prog \
                            else strategies[0][0][1]
                        cap = CLUSTERS[ck][0][0]
                        if pk != "fresh" and any(cap.get(r, 0) < q
                                                 for r, q in need.items()):
                            continue
                        for dk in deadlines:
                            crit = sum(max(rt for rt, _d in ss) for ss in strategies)
                            if dk == "loose":
                                dl = now + 2 * crit + n + 4
                            elif dk == "tight":
                                dl = now + crit + n
                            elif dk == "exact":
                                # the fastest strategy of every task just fits if the
                                # tasks run back to back from now
                                dl = now + sum(min(rt for rt, _d in ss)
                                               for ss in strategies)
                            elif dk == "exact+1":
                                dl = now + sum(min(rt for rt, _d in ss)
                                               for ss in strategies) + 1
                            else:  # hopeless for every fresh task
                                dl = now + min(rt for rt, _d in strategies[0]) - 1
                            g = {"name": "G", "nodes": NAMES[:n],
                                 "edges": [list(e) for e in edges],
                                 "strategies": strategies, "release": 0,
                                 "deadline": dl, "progress": prog}
                            for pol in policies:
                                for ok, opt in OPTS[pol].items():
                                    if opt_keys is not None and ok not in opt_keys:
                                        continue
                                    o = dict(opt)
                                    if pol in ("TSG", "TSC"):
                                        o["plan_ahead"] = min(2 * crit + n + 2, 9) \
                                            if pol == "TSG" else min(crit + 2, 6)
                                    graphs = [g]
                                    if blocker:
                                        graphs = [g, {
                                            "name": "Bk", "nodes": ["R"], "edges": [],
                                            "strategies": [[[6, {"CPU": 1}]]],
                                            "release": 0, "deadline": now + 40,
                                            "progress": {"R": ["running", now - 1,
                                                               "p0w0", 0]}}]
                                    yield {
                                        "policy": pol, "opts": o,
                                        "cluster": CLUSTERS[ck], "graphs": graphs,
                                        "now": now, "seed": seed,
                                        "tag": f"{sname}/v{variant}/{ck}/{pk}/{dk}/"
                                               f"{pol}+{ok}"
                                               f"{'/blocker' if blocker else ''}",
                                    }


def count(it):
    return sum(1 for _ in it)


del itertools
