"""Bootstrap: load the real simulator in-process with only its logging sinks replaced.

Imported first in every worker process.  See DESIGN.md §3.1.

* `utils.setup_logging` / `utils.setup_csv_logging` are replaced *before* any other
  repo module is imported (they all do `from utils import setup_logging`).
  Text loggers become silent; CSV loggers append each row to `ROWS`.
* `main` is imported (defines the absl flags), a default flag vector is parsed at
  once (an unparsed FLAGS + missing EventTime._rng raises UnparsedFlagAccessError).
* `RNG0` is the state of `EventTime._rng` right after the imports: in a fresh
  `python main.py` process that generator is created while workload/tasks.py is
  imported and is `random.Random(42)` whatever `--random_seed` says.  It is restored
  before every in-process run.
"""
import logging
import os
import sys

REPO = os.environ.get("VERIF_REPO", "/repo")
if REPO not in sys.path:
    sys.path.insert(0, REPO)
# The repository's own modules must win over anything else called `utils`, `data` ...
os.environ.setdefault("ERDOS_SIM_VERIF", "1")

ROWS = []  # CSV rows of the run in progress (list of str)

import utils  # noqa: E402  (the repo's utils.py)

_ORIG_SETUP_LOGGING = utils.setup_logging
_ORIG_SETUP_CSV_LOGGING = utils.setup_csv_logging


class _RowHandler(logging.Handler):
    def emit(self, record):
        ROWS.append(record.getMessage())


_ROW_HANDLER = _RowHandler()
_SILENT = {}
_CSV = {}


def _silent_logger(name):
    lg = _SILENT.get(name)
    if lg is None:
        lg = logging.getLogger("vf.silent." + str(name))
        lg.propagate = False
        lg.handlers[:] = [logging.NullHandler()]
        lg.setLevel(logging.CRITICAL + 10)
        _SILENT[name] = lg
    return lg


def setup_logging(name, fmt=None, date_fmt=None, log_dir=None, log_file=None,
                  log_level="debug"):
    return _silent_logger(name)


def setup_csv_logging(name, log_dir=None, log_file=None):
    lg = _CSV.get(name)
    if lg is None:
        lg = logging.getLogger("vf.csv." + str(name))
        lg.propagate = False
        lg.handlers[:] = [_ROW_HANDLER]
        lg.setLevel(logging.DEBUG)
        _CSV[name] = lg
    return lg


utils.setup_logging = setup_logging
utils.setup_csv_logging = setup_csv_logging

import random  # noqa: E402

from absl import flags  # noqa: E402

import main  # noqa: E402  (defines all flags, imports simulator/schedulers/...)
import simulator  # noqa: E402
import workers  # noqa: E402
import workload  # noqa: E402
import workload.tasks as wl_tasks  # noqa: E402
from utils import EventTime  # noqa: E402

FLAGS = flags.FLAGS
BASE_ARGV = ["main.py", "--random_seed=0", "--scheduler_runtime=0"]


def parse_flags(args):
    FLAGS.unparse_flags()
    FLAGS(["main.py"] + list(args))


parse_flags(BASE_ARGV[1:])
# Touch the generator so that it certainly exists, then remember the pristine state a
# fresh process would have: Random(42), untouched (creation happened at import time).
EventTime.zero()
assert EventTime._rng is not None
RNG0 = random.Random(42).getstate()
_IMPORT_STATE = EventTime._rng.getstate()
FRESH_RNG_OK = _IMPORT_STATE == RNG0  # nothing consumed it during imports

REAL_RANDOM = wl_tasks.random  # the `random` module object used by workload/tasks.py


def reset_rng():
    EventTime._rng = random.Random(42)
