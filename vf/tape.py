"""Answer tape: owns the randomness a run depends on (DESIGN.md §3.3).

Two generators of the repository are put behind the tape:
  * the `random` module as seen by workload/tasks.py (`choices` for the branch taken
    by a conditional, `random`/`choice` for RANDOM branch *prediction*);
  * `EventTime._rng.uniform` (deadline slack and runtime variance fuzz).
Ids (`getrandbits`) keep coming from the seeded global generator.

A tape is a list of small integers.  While a prefix is being replayed the recorded
arity must match (divergence = hard harness error).  After the prefix the default
answer 0 is given and the choice point (kind, arity) is recorded so that the explorer
can branch on it.
"""


class TapeDivergence(Exception):
    pass


class Tape(object):
    def __init__(self, prefix=(), arities=None):
        self.prefix = list(prefix)
        self.expect = list(arities) if arities is not None else None
        self.points = []  # (kind, arity, answer)

    def answer(self, kind, arity):
        i = len(self.points)
        if arity <= 1:
            return 0  # not a choice point
        if i < len(self.prefix):
            a = self.prefix[i]
            if a >= arity:
                raise TapeDivergence(
                    f"tape index {i}: answer {a} out of range for arity {arity} ({kind})"
                )
            if self.expect is not None and i < len(self.expect) and self.expect[i] != arity:
                raise TapeDivergence(
                    f"tape index {i}: arity {arity} != recorded {self.expect[i]} ({kind})"
                )
        else:
            a = 0
        self.points.append((kind, arity, a))
        return a

    def choices_made(self):
        return [p[2] for p in self.points]

    def arities(self):
        return [p[1] for p in self.points]


class TapeRandomModule(object):
    """Stand-in for the `random` module inside workload/tasks.py."""

    def __init__(self, real, tape):
        self._real = real
        self._tape = tape

    def getrandbits(self, k):
        return self._real.getrandbits(k)

    def choices(self, population, weights=None, *, cum_weights=None, k=1):
        population = list(population)
        if weights is None:
            idxs = list(range(len(population)))
        else:
            idxs = [i for i, w in enumerate(weights) if w > 0]
            if not idxs:
                idxs = list(range(len(population)))
        out = []
        for _ in range(k):
            a = self._tape.answer("choices", len(idxs))
            out.append(population[idxs[a]])
        return out

    def random(self):
        a = self._tape.answer("random", 2)
        return 0.0 if a == 0 else 0.999999

    def choice(self, seq):
        seq = list(seq)
        a = self._tape.answer("choice", len(seq))
        return seq[a]

    def __getattr__(self, name):
        return getattr(self._real, name)


class TapeUniform(object):
    """Stand-in for EventTime._rng: uniform(a, b) answers low / high / middle."""

    def __init__(self, tape):
        self._tape = tape

    def uniform(self, a, b):
        if a == b:
            return a
        k = self._tape.answer("uniform", 3)
        return (a, b, (a + b) / 2.0)[k]

    def getstate(self):
        return None


PREDICTION_KINDS = ("choice", "random")


def explore(run, max_runs=None, bound=None, bounded_kinds=PREDICTION_KINDS):
    """Stateless exploration of every tape of `run`.

    `run(prefix, arities)` executes once and returns (tape, result).  Yields every
    (choices, result).  `bound` limits the number of non-default answers (None = all).
    Returns via StopIteration nothing; caller counts.
    """
    stack = [([], None)]
    n = 0
    while stack:
        prefix, ar = stack.pop()
        tape, result = run(prefix, ar)
        n += 1
        yield tape, result
        if max_runs is not None and n >= max_runs:
            return
        pts = tape.points
        dev = sum(1 for p in pts[: len(prefix)] if p[2] != 0 and p[0] in bounded_kinds)
        for i in range(len(pts) - 1, len(prefix) - 1, -1):
            kind, arity, _ = pts[i]
            if bound is not None and kind in bounded_kinds and dev + 1 > bound:
                continue
            base = [p[2] for p in pts[:i]]
            base_ar = [p[1] for p in pts[: i + 1]]
            for alt in range(arity - 1, 0, -1):
                stack.append((base + [alt], base_ar))
