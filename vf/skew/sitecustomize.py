"""Clock skew for the C09 determinism harness: VF_CLOCK_SKEW='+<seconds>' adds an
offset to time.time(), 'x<factor>' makes wall-clock run faster.  Only active when the
variable is set; put on PYTHONPATH of child processes by vf/checks/c09.py."""
import os
import time as _t

_spec = os.environ.get("VF_CLOCK_SKEW")
if _spec:
    _real = _t.time
    _t0 = _real()
    if _spec.startswith("+"):
        _off = float(_spec[1:])
        _t.time = lambda: _real() + _off
    elif _spec.startswith("x"):
        _f = float(_spec[1:])
        _t.time = lambda: _t0 + (_real() - _t0) * _f
