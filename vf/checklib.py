"""Shared driver for the checks: aggregation, triage against known findings,
determinism gate, replay artefacts, evidence files, exit status."""
import hashlib
import json
import os
import sys
import time

from . import findings
from .runner import pmap, BrokenCheck

ROOT = os.path.dirname(os.path.dirname(os.path.abspath(__file__)))
EVIDENCE_DIR = os.path.join(ROOT, "evidence")
REPLAY_DIR = os.path.join(ROOT, "replays")


def jdefault(o):
    if isinstance(o, (set, frozenset)):
        return sorted(o)
    if isinstance(o, tuple):
        return list(o)
    return str(o)


def write_evidence(prop, tier, seed, level, coverage, wall, violations, assumptions=()):
    os.makedirs(EVIDENCE_DIR, exist_ok=True)
    ev = {
        "property_id": prop, "tier": tier, "seed": int(seed), "level": level,
        "coverage": coverage, "assumptions": list(assumptions),
        "wall_s": round(wall, 2), "violations": int(violations),
    }
    path = os.path.join(EVIDENCE_DIR, f"{prop}.json")
    tmp = path + ".tmp"
    with open(tmp, "w") as f:
        json.dump(ev, f, indent=1, default=jdefault, sort_keys=True)
    os.replace(tmp, path)
    return path


def write_replay(prop, engine, payload):
    os.makedirs(REPLAY_DIR, exist_ok=True)
    blob = json.dumps(payload, sort_keys=True, default=jdefault)
    h = hashlib.blake2b(blob.encode(), digest_size=6).hexdigest()
    path = os.path.join(REPLAY_DIR, f"{prop}-{h}.json")
    with open(path, "w") as f:
        json.dump({"property": prop, "engine": engine, **payload}, f, indent=1,
                  default=jdefault, sort_keys=True)
    return path


class Report(object):
    """Collects what a check found and turns it into stdout lines + exit status."""

    def __init__(self, prop):
        self.prop = prop
        self.entries = findings.load()
        self.known = {}  # finding id -> count
        self.known_what = {}
        self.unknown = []  # (violation, world, engine payload)
        self.broken = []

    def add(self, viol, world, payload=None):
        e = findings.classify(self.prop, viol, world, self.entries)
        if e is not None:
            self.known[e["id"]] = self.known.get(e["id"], 0) + 1
            self.known_what[e["id"]] = e.get("what", "")
        else:
            self.unknown.append((viol, world, payload))

    def finish(self, engine, confirm=None, max_report=5):
        """confirm(viol, world, payload) -> bool (reproduces, deterministically)."""
        lines = []
        for fid, n in sorted(self.known.items()):
            lines.append(f"KNOWN-FINDING: property={self.prop} {fid}: "
                         f"{self.known_what[fid]} ({n} occurrences)")
        confirmed = []
        seen_rules = {}
        for viol, world, payload in self.unknown:
            key = viol.get("rule")
            if seen_rules.get(key, 0) >= 2:
                seen_rules[key] += 1
                continue
            seen_rules[key] = seen_rules.get(key, 0) + 1
            if confirm is not None:
                ok = confirm(viol, world, payload)
                if not ok:
                    self.broken.append(
                        f"violation {viol.get('rule')} did not reproduce identically "
                        f"on replay: {viol.get('msg')}")
                    continue
            confirmed.append((viol, world, payload))
        n_viol = 0
        for viol, world, payload in confirmed[:max_report]:
            p = write_replay(self.prop, engine, {
                "violation": viol, "world": world, "payload": payload})
            lines.append(f"VIOLATION property={self.prop} replay={p}")
            lines.append(f"  rule={viol.get('rule')} {viol.get('msg')}")
            n_viol += 1
        extra = len(self.unknown) - n_viol
        if n_viol and extra > 0:
            lines.append(f"  (+{extra} further violation records of rules "
                         f"{sorted(k for k in seen_rules if k)})")
        return lines, n_viol


def finish_process(lines, n_viol, broken):
    for ln in lines:
        print(ln)
    if broken:
        for b in broken:
            print("BROKEN-CHECK:", b)
        sys.stdout.flush()
        sys.exit(2)
    sys.stdout.flush()
    sys.exit(1 if n_viol else 0)


# ------------------------------------------------------------------------ E1 driver
def run_e1(prop, tier, seed, slices, props=None, extra_factory=None,
           conformance=None, budget_s=None, tape_bound=None, level="model_checking",
           assumptions=(), rule_note="", required_stats=(), chunk=6, finish=True):
    """slices: list of (name, iterable of worlds).  Runs everything, triages, writes
    evidence, prints the verdict and exits."""
    from . import e1

    t0 = time.time()
    props = props if props is not None else {prop}
    deadline = (t0 + budget_s) if budget_s else None
    rep = Report(prop)
    tot = {"runs": 0, "events": 0, "worlds": 0, "tapes_capped": 0}
    states, sigs = set(), set()
    stats, status = {}, {}
    per_slice = {}
    samples = []
    max_tape = 0

    def all_worlds():
        # round-robin over the slices in blocks: if the time budget ends the run early,
        # what was not explored (counted in `capped`) is spread over all slices instead
        # of being the whole of the last ones
        import itertools as _it

        its = [(name, iter(it)) for name, it in slices]
        while its:
            alive = []
            for name, it in its:
                block = list(_it.islice(it, 48))
                for w in block:
                    w["slice"] = name
                    yield w
                if len(block) == 48:
                    alive.append((name, it))
            its = alive

    try:
        for res in pmap(e1.e1_job, all_worlds(), extra=(props, extra_factory,
                                                        tape_bound),
                        chunk=chunk, deadline=deadline):
            tot["worlds"] += 1
            tot["runs"] += res["runs"]
            tot["events"] += res["events"]
            tot["tapes_capped"] += res["tape_capped"]
            max_tape = max(max_tape, res["max_tape_len"])
            if len(states) < 6_000_000:
                states.update(res["states"])
            sigs.update(res["sigs"])
            for k, v in res["stats"].items():
                stats[k] = stats.get(k, 0) + v
            for k, v in res["status"].items():
                status[k] = status.get(k, 0) + v
            sl = (res["sample"] or {}).get("tag", "?").split(" ")[0]
            per_slice[sl] = per_slice.get(sl, 0) + 1
            if res["sample"] and len(samples) < 6 and (
                    not samples or sl not in [s["tag"].split(" ")[0] for s in samples]):
                samples.append(res["sample"])
            for v in res["violations"]:
                if v["prop"] == prop:
                    w = v.pop("world")
                    rep.add(v, w, {"props": sorted(props),
                                   "extra": list(extra_factory or [])})
    except BrokenCheck as e:
        print("BROKEN-CHECK: harness failure\n" + str(e))
        sys.exit(2)
    capped = pmap.capped

    def confirm(viol, world, payload):
        r1 = e1.replay_job_sub(world, props, extra_factory)
        r2 = e1.replay_job_sub(world, props, extra_factory)
        k = (viol["rule"], viol["msg"])
        s1 = [(v["rule"], v["msg"]) for v in r1["violations"] if v["prop"] == prop]
        s2 = [(v["rule"], v["msg"]) for v in r2["violations"] if v["prop"] == prop]
        return s1 == s2 and k in s1

    lines, n_viol = rep.finish("e1", confirm)

    conf_n = 0
    if conformance:
        try:
            for c in pmap(e1.conformance_job, conformance, chunk=1):
                conf_n += 1
                if not c["ok"]:
                    rep.broken.append(
                        f"conformance: in-process run differs from `python main.py` "
                        f"for {c['tag']}: {c['diff']}")
        except BrokenCheck as e:
            print("BROKEN-CHECK: harness failure in conformance\n" + str(e))
            sys.exit(2)

    for k in required_stats:
        if not stats.get(k):
            rep.broken.append(f"vacuity: outcome class '{k}' never observed")

    coverage = {
        "states": max(len(states), 1),
        "transitions": max(tot["events"], 1),
        "traces_validated_against_impl": tot["runs"] + conf_n,
        "samples": samples or [{"note": "no sample"}],
        "exhaustive": capped == 0 and tot["tapes_capped"] == 0,
        "evaluations": tot["runs"],
        "distinct_nontrivial": len(sigs),
        "rule": "every world of every listed slice x every answer tape is executed on "
                "the real simulator with the shadow monitor; distinct = distinct final "
                "(task state, start, finish) signatures. " + rule_note,
        "worlds": tot["worlds"],
        "worlds_per_slice": per_slice,
        "executions": tot["runs"],
        "max_tape_length": max_tape,
        "tape_deviation_bound": "all" if tape_bound is None else tape_bound,
        "worlds_with_tape_cap_hit": tot["tapes_capped"],
        "worlds_not_run_due_to_time_cap": capped,
        "subprocess_conformance_runs": conf_n,
        "run_status": status,
        "outcome_classes": stats,
        "known_findings_hit": rep.known,
        "states_counter_saturated": len(states) >= 6_000_000,
    }
    wall = time.time() - t0
    print(f"{prop} {tier} seed={seed}: worlds={tot['worlds']} executions={tot['runs']} "
          f"states={len(states)} transitions={tot['events']} distinct_outcomes="
          f"{len(sigs)} status={status} capped={capped} wall={wall:.1f}s")
    if not finish:
        return {"lines": lines, "n_viol": n_viol, "broken": rep.broken,
                "coverage": coverage, "assumptions": list(assumptions), "wall": wall}
    write_evidence(prop, tier, seed, level, coverage, wall, n_viol, assumptions)
    finish_process(lines, n_viol, rep.broken)


# ------------------------------------------------------------------- generic driver
def run_generic(prop, tier, seed, items, job, extra=(), engine="e3", level="model_checking",
                rule="", assumptions=(), required_stats=(), chunk=4, budget_s=None,
                exhaustive_note=None, confirm_job=None, states_key="states",
                transitions_key="transitions", finish=True):
    """items -> job(item, *extra) in worker processes.  A job returns a dict with
    integer counters under 'stats' (summed), 'states'/'transitions'/'validated'
    counters, optional 'distinct' (list of hashes, unioned), 'violations' (list of
    {rule, msg, case}), 'samples' (list)."""
    t0 = time.time()
    deadline = (t0 + budget_s) if budget_s else None
    rep = Report(prop)
    stats = {}
    tot = {"items": 0, "states": 0, "transitions": 0, "validated": 0, "evaluations": 0}
    distinct = set()
    samples = []
    try:
        for res in pmap(job, items, extra=extra, chunk=chunk, deadline=deadline):
            tot["items"] += 1
            for k in ("states", "transitions", "validated", "evaluations"):
                tot[k] += int(res.get(k, 0))
            for k, v in (res.get("stats") or {}).items():
                stats[k] = stats.get(k, 0) + v
            if len(distinct) < 3_000_000:
                distinct.update(res.get("distinct") or ())
            for s in (res.get("samples") or []):
                if len(samples) < 5:
                    samples.append(s)
            for v in (res.get("violations") or []):
                rep.add(v, v.get("world"), v.get("case"))
            if res.get("unbound") and len(rep.broken) < 5:
                rep.broken.append("model/implementation binding: " + res["unbound"])
    except BrokenCheck as e:
        print("BROKEN-CHECK: harness failure\n" + str(e))
        sys.exit(2)
    capped = pmap.capped

    def confirm(viol, world, case):
        if confirm_job is None:
            return True
        outs = []
        cj = confirm_job
        if isinstance(case, dict) and "raw_item" in case:
            cj, case = job, _untuple(case["raw_item"])
        for _ in range(2):
            for r in pmap(cj, [case], extra=extra, chunk=1, procs=1):
                outs.append(sorted((v["rule"], v.get("ident", v["msg"]))
                                   for v in r.get("violations", [])))
        # `ident` (default: the message) is what has to reproduce.  C09 uses it: there
        # the defect *is* that two executions differ, so the differing rows vary.
        return outs[0] == outs[1] and \
            (viol["rule"], viol.get("ident", viol["msg"])) in outs[0]

    lines, n_viol = rep.finish(engine, confirm)
    for k in required_stats:
        if not stats.get(k):
            rep.broken.append(f"vacuity: outcome class '{k}' never observed")
    coverage = {
        "states": max(tot["states"], 1),
        "transitions": max(tot["transitions"], 1),
        "traces_validated_against_impl": tot["validated"],
        "samples": samples or [{"note": "no sample"}],
        # any cap that was hit (time budget, per-item state cap, decision-point cap,
        # solution cap) makes the run non-exhaustive; the cap counters are in
        # outcome_classes
        "exhaustive": capped == 0 and not any(
            v for k, v in stats.items() if k.endswith("cap_hit")),
        "evaluations": max(tot["evaluations"], tot["items"]),
        "distinct_nontrivial": len(distinct),
        "rule": rule,
        "work_items": tot["items"],
        "work_items_not_run_due_to_time_cap": capped,
        "outcome_classes": stats,
        "known_findings_hit": rep.known,
    }
    if exhaustive_note:
        coverage["exhaustive_note"] = exhaustive_note
    wall = time.time() - t0
    print(f"{prop} {tier} seed={seed}: items={tot['items']} states={tot['states']} "
          f"transitions={tot['transitions']} validated={tot['validated']} "
          f"distinct={len(distinct)} capped={capped} wall={wall:.1f}s")
    if not finish:
        return {"lines": lines, "n_viol": n_viol, "broken": rep.broken,
                "coverage": coverage, "assumptions": list(assumptions), "wall": wall}
    write_evidence(prop, tier, seed, level, coverage, wall, n_viol, assumptions)
    finish_process(lines, n_viol, rep.broken)


def _untuple(x):
    """JSON round trip turns tuples into lists; work items are tuples at top level."""
    return tuple(x) if isinstance(x, list) else x


def generic_replay(prop, path, job, extra=(), item_job=None):
    with open(path) as f:
        d = json.load(f)
    case = d.get("payload")
    want = d["violation"]
    if isinstance(case, dict) and "raw_item" in case:
        if item_job is None:
            print("replay of a raw work item needs the check's job function")
            return 2
        job, case = item_job, _untuple(case["raw_item"])
    out = None
    for r in pmap(job, [case], extra=extra, chunk=1, procs=1):
        out = r
    got = [(v["rule"], v["msg"]) for v in out.get("violations", [])]
    print(f"replay of {path}: {got[:5]}")
    if any(g[0] == want["rule"] for g in got):
        print(f"VIOLATION property={prop} replay={path}")
        return 1
    print("not reproduced")
    return 0


def combine_and_finish(prop, tier, seed, parts, level="model_checking"):
    """parts: list of (label, result dict from run_e1/run_generic with finish=False)."""
    cov = {"parts": {}}
    lines, broken, n_viol, wall, assumptions = [], [], 0, 0.0, []
    states = transitions = validated = evaluations = distinct = 0
    samples = []
    exhaustive = True
    for label, r in parts:
        c = r["coverage"]
        cov["parts"][label] = {k: v for k, v in c.items() if k != "samples"}
        states += c.get("states", 0)
        transitions += c.get("transitions", 0)
        validated += c.get("traces_validated_against_impl", 0)
        evaluations += c.get("evaluations", 0)
        distinct += c.get("distinct_nontrivial", 0)
        samples += [dict(part=label, sample=s) for s in c.get("samples", [])[:3]]
        exhaustive = exhaustive and bool(c.get("exhaustive"))
        lines += r["lines"]
        broken += r["broken"]
        n_viol += r["n_viol"]
        wall += r["wall"]
        assumptions += [f"[{label}] {a}" for a in r["assumptions"]]
    cov.update({"states": max(states, 1), "transitions": max(transitions, 1),
                "traces_validated_against_impl": validated, "samples": samples,
                "evaluations": max(evaluations, 1), "distinct_nontrivial": distinct,
                "exhaustive": exhaustive,
                "rule": "; ".join(f"[{l}] {r['coverage'].get('rule', '')}"
                                  for l, r in parts)})
    write_evidence(prop, tier, seed, level, cov, wall, n_viol, assumptions)
    finish_process(lines, n_viol, broken)
