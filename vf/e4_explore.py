"""Instance exploration shared by C10, C11, C12, C14: build the instance with real
transitions, call the real schedule() with capture, enumerate every decision point of
the captured model, decode each feasible point with the scheduler's own read-back and
evaluate the property oracles on the decoded plan."""
import itertools

from . import e4
from . import instances as I

SOLVER_KINDS = ("ILP", "TSG", "TSC", "Z3")


# ------------------------------------------------------------------ instance facts
def facts(inst):
    """Plain-data view of an instance for the oracles."""
    F = {"now": inst["now"], "tasks": {}, "workers": {}, "opts": inst.get("opts", {})}
    for pi, ws in enumerate(inst["cluster"]):
        for wi, cap in enumerate(ws):
            tot = {}
            for n, q in cap.items():  # "CPU#2" = a second entry of the name CPU
                tot[n.split("#")[0]] = tot.get(n.split("#")[0], 0) + q
            F["workers"][f"p{pi}w{wi}"] = tot
    F["pool_workers"] = {pi: [f"p{pi}w{wi}" for wi in range(len(ws))]
                         for pi, ws in enumerate(inst["cluster"])}
    for g in inst["graphs"]:
        gname = g["name"] + "@0"
        par = {n: [] for n in g["nodes"]}
        for i, j in g["edges"]:
            par[g["nodes"][j]].append(g["nodes"][i])
        for k, n in enumerate(g["nodes"]):
            spec = (g.get("progress") or {}).get(n)
            if spec is None:
                spec = ["released"] if not par[n] else ["virtual"]
            dl = g["deadlines"][k] if "deadlines" in g else g["deadline"]
            F["tasks"][(gname, n)] = {
                "parents": [(gname, p) for p in par[n]],
                "strategies": [(rt, dict(dem)) for rt, dem in g["strategies"][k]],
                "spec": list(spec), "deadline": dl,
                "release": g.get("release", 0) if not par[n] else None,
            }
    # fix-ups: a "released" non-source is released when its parents completed
    for key, t in F["tasks"].items():
        if t["release"] is None and t["parents"]:
            ends = []
            for p in t["parents"]:
                ps = F["tasks"][p]["spec"]
                if ps[0] == "completed":
                    ends.append(ps[1] + F["tasks"][p]["strategies"][ps[3]][0])
                else:
                    ends = None
                    break
            if ends:
                t["release"] = max(ends)
    return F


def fixed_intervals(F, plan):
    """(worker, demand, start, end, key) of tasks that hold resources and are not
    decided in `plan`: running tasks and previously scheduled ones."""
    out = []
    for key, t in F["tasks"].items():
        sp = t["spec"]
        if sp[0] == "running":
            rt, dem = t["strategies"][sp[3]]
            out.append((sp[2], dem, F["now"], sp[1] + rt, key))
        elif sp[0] == "scheduled" and key not in plan:
            rt, dem = t["strategies"][sp[3]]
            out.append((sp[2], dem, sp[1], sp[1] + rt, key))
    return out


def plan_intervals(F, plan):
    out = []
    for key, d in plan.items():
        if d is None or d == "cancel":
            continue
        w, sidx, start = d
        t = F["tasks"][key]
        if sidx is None:
            # no strategy reported (z3): worst case = slowest, demand of the fastest
            # compatible one is what its model charges; use the slowest runtime and the
            # largest demand to stay on the safe side is *not* sound for an alarm, so
            # capacity is not judged for strategy-less plans
            continue
        rt, dem = t["strategies"][sidx]
        out.append((w, dem, start, start + rt, key))
    return out


def capacity_violations(F, intervals):
    """Half-open occupancy [start, end): at every instant, per worker and resource."""
    bad = []
    by_w = {}
    for w, dem, s, e, key in intervals:
        by_w.setdefault(w, []).append((dem, s, e, key))
    for w, lst in by_w.items():
        if not isinstance(w, str):
            continue
        cap = F["workers"][w]
        pts = sorted(set(s for _d, s, _e, _k in lst))
        for t in pts:
            used = {}
            who = []
            for dem, s, e, key in lst:
                if s <= t < e:
                    who.append(key[1])
                    for r, q in dem.items():
                        used[r] = used.get(r, 0) + q
            for r, q in used.items():
                if q > cap.get(r, 0):
                    bad.append((w, r, t, q, cap.get(r, 0), who))
    return bad


def pool_level_feasible(F, intervals):
    """Placements that name only a pool (int worker): does *some* assignment to that
    pool's workers fit together with everything else?  Brute force."""
    free = [iv for iv in intervals if not isinstance(iv[0], str)]
    fixed = [iv for iv in intervals if isinstance(iv[0], str)]
    if not free:
        return not capacity_violations(F, fixed)
    choices = [F["pool_workers"][iv[0]] for iv in free]
    for combo in itertools.product(*choices):
        trial = fixed + [(w,) + iv[1:] for w, iv in zip(combo, free)]
        if not capacity_violations(F, trial):
            return True
    return False


# ------------------------------------------------------------------ oracles
def oracle_precedence(F, plan, kind):
    """C11 on one decoded plan."""
    out = []
    for key, d in plan.items():
        if d is None or d == "cancel":
            continue
        _w, sidx, start = d
        for p in F["tasks"][key]["parents"]:
            pt = F["tasks"][p]
            ps = pt["spec"]
            if p in plan:
                pd = plan[p]
                if pd is None or pd == "cancel":
                    out.append(("precedence.parent_unplaced",
                                f"{key[1]} placed at {start} while its predecessor "
                                f"{p[1]} is left unplaced in the same decision"))
                    continue
                _pw, psidx, pstart = pd
                if psidx is not None:
                    need = pstart + pt["strategies"][psidx][0]
                    what = "chosen"
                else:
                    need = pstart + max(rt for rt, _d in pt["strategies"])
                    what = "worst-case"
                if start < need:
                    out.append(("precedence.child_before_parent_end",
                                f"{key[1]} starts at {start} < start {pstart} + {what} "
                                f"runtime of its predecessor {p[1]} = {need}"))
            elif ps[0] == "running":
                need = ps[1] + pt["strategies"][ps[3]][0]
                if start < need:
                    out.append(("precedence.before_running_parent_ends",
                                f"{key[1]} starts at {start} < expected finish {need} "
                                f"of its running predecessor {p[1]}"))
            elif ps[0] == "scheduled":
                need = ps[1] + pt["strategies"][ps[3]][0]
                if start < need:
                    out.append(("precedence.before_scheduled_parent_ends",
                                f"{key[1]} starts at {start} < expected finish {need} "
                                f"of its scheduled predecessor {p[1]}"))
    return out


def oracle_deadline(F, plan):
    out = []
    if not F["opts"].get("enforce_deadlines"):
        return out
    for key, d in plan.items():
        if d is None or d == "cancel":
            continue
        _w, sidx, start = d
        t = F["tasks"][key]
        if sidx is None:
            continue
        rt = t["strategies"][sidx][0]
        if start + rt > t["deadline"]:
            out.append(("deadline.plan_misses",
                        f"{key[1]} planned at {start} with runtime {rt}: completes at "
                        f"{start + rt} > deadline {t['deadline']}"))
    return out


CANCELLERS = ("EDF", "FIFO", "TSC", "Clockwork")
LEAVERS = ("ILP", "TSG")


def oracle_hopeless(F, plan, offered, kind):
    """C12: a task that cannot finish by its deadline even with its fastest strategy
    starting now is answered with a cancellation (EDF, FIFO, Clockwork,
    TetriSched-CPLEX) or left unplaced (ILP, TetriSched-Gurobi), never placed."""
    out = []
    if not F["opts"].get("enforce_deadlines"):
        return out
    for key in offered:
        t = F["tasks"][key]
        if t["spec"][0] in ("running", "completed", "scheduled"):
            continue
        fastest = min(rt for rt, _d in t["strategies"])
        hopeless = t["deadline"] < F["now"] + fastest
        d = plan.get(key, "missing")
        if hopeless:
            if d not in (None, "cancel", "missing"):
                out.append(("hopeless.placed",
                            f"{key[1]} (deadline {t['deadline']}, fastest runtime "
                            f"{fastest}, now {F['now']}) was placed: {d}"))
            elif kind in CANCELLERS and d != "cancel":
                out.append(("hopeless.not_cancelled",
                            f"{key[1]} (deadline {t['deadline']}, fastest runtime "
                            f"{fastest}, now {F['now']}) answered {d!r}, expected a "
                            f"cancellation"))
        elif d == "cancel":
            out.append(("cancelled.not_hopeless",
                        f"{key[1]} (deadline {t['deadline']}, fastest runtime {fastest}, "
                        f"now {F['now']}) was cancelled although it can still finish in "
                        f"time"))
    return out


def oracle_capacity(F, plan):
    iv = fixed_intervals(F, plan) + plan_intervals(F, plan)
    out = []
    if any(not isinstance(x[0], str) for x in iv):
        if not pool_level_feasible(F, iv):
            out.append(("capacity.no_worker_assignment",
                        f"no assignment of the pool-level placements {plan} to workers "
                        f"fits together with running/scheduled tasks"))
        return out
    for w, r, t, q, cap, who in capacity_violations(F, iv):
        out.append(("capacity.exceeded",
                    f"worker {w} {r}: {q} > {cap} at t={t} with {sorted(who)}"))
        break
    return out


def oracle_contract(F, plan, offered, kind):
    """C10: complete answer / only offered or own tasks / time >= now, >= release."""
    out = []
    for key, d in plan.items():
        t = F["tasks"].get(key)
        if t is None:
            out.append(("decision.unknown_task", f"{key}"))
            continue
        st = t["spec"][0]
        if st in ("running", "completed") and d is not None:
            out.append(("decision.for_started_task", f"{key[1]} is {st} but got {d}"))
        if key not in offered and st != "scheduled":
            out.append(("decision.not_offered", f"{key[1]} was not offered"))
        if d is None or d == "cancel":
            continue
        _w, _sidx, start = d
        if start < F["now"]:
            out.append(("decision.in_the_past", f"{key[1]} placed at {start} < now "
                                                f"{F['now']}"))
        if t["release"] is not None and start < t["release"]:
            out.append(("decision.before_release",
                        f"{key[1]} placed at {start} < release {t['release']}"))
    if kind in ("ILP", "TSG", "TSC", "EDF", "FIFO", "LSF"):
        for key in offered:
            st = F["tasks"][key]["spec"][0]
            if st == "scheduled":
                continue
            if key not in plan:
                out.append(("decision.missing", f"offered task {key[1]} got no answer"))
    return out


# ------------------------------------------------------------------ exploration
def horizon_for(inst):
    h = 2
    for g in inst["graphs"]:
        h += sum(max(rt for rt, _d in ss) for ss in g["strategies"]) + len(g["nodes"])
    return min(h, inst.get("horizon_cap", 9))


def explore(inst, want=("C10", "C11", "C12"), max_points=60000, enumerate_model=True):
    """Returns dict(stats, violations[{prop, rule, msg}], returned_plan, ...)."""
    kind = inst["policy"]
    b = I.build(inst)
    F = facts(inst)
    res = {"stats": {"instances": 1}, "violations": [], "points": 0, "feasible": 0,
           "solves": 0, "validated": 0}

    def viol(prop, rule, msg):
        if prop in want and len(res["violations"]) < 12:
            res["violations"].append({"prop": prop, "rule": rule,
                                      "msg": f"{kind} {inst.get('tag', '')}: {msg}"})

    snap0 = I.snapshot(b)
    offered_holder = []
    import workload.workload as WW

    orig_gst = WW.Workload.get_schedulable_tasks

    def spy(self, *a, **k):
        r = orig_gst(self, *a, **k)
        if not offered_holder:
            offered_holder.append([(t.task_graph, t.name) for t in r])
        return r

    WW.Workload.get_schedulable_tasks = spy
    cap = None
    try:
        try:
            if kind in SOLVER_KINDS:
                pl, cap = e4.run_captured(b, kind)
            else:
                pl = b.scheduler.schedule(b.now, b.workload, b.worker_pools)
        except Exception as e:  # noqa: B902
            viol("C10", "schedule.raises", f"schedule() raised {type(e).__name__}: "
                                           f"{str(e)[:150]}")
            res["stats"]["schedule_raised"] = 1
            return res
    finally:
        WW.Workload.get_schedulable_tasks = orig_gst
    try:
        snap1 = I.snapshot(b)
        if snap0 != snap1:
            diff = [(x, y) for x, y in zip(snap0, snap1) if x != y][:2]
            viol("C10", "side_effect", f"deciding changed the live state: {diff}")
        offered = offered_holder[0] if offered_holder else []
        res["stats"]["offered_tasks"] = len(offered)
        plan, problems = I.describe_placements(b, pl)
        for rule, msg in problems:
            viol("C10", rule, msg)
        res["returned_plan"] = {f"{k[1]}": v for k, v in plan.items()}
        for rule, msg in oracle_contract(F, plan, offered, kind):
            viol("C10", rule, msg)
        for rule, msg in oracle_capacity(F, plan):
            viol("C10", "returned." + rule, msg)
        for rule, msg in oracle_precedence(F, plan, kind):
            if kind in ("ILP", "TSG", "Z3"):
                viol("C11", "returned." + rule, msg)
        if kind in ("ILP", "TSG", "TSC"):
            # only the planning policies promise start + chosen runtime <= deadline;
            # EDF / FIFO promise the admission test alone
            for rule, msg in oracle_deadline(F, plan):
                viol("C12", "returned." + rule, msg)
        for rule, msg in oracle_hopeless(F, plan, offered, kind):
            viol("C12", rule, msg)
            res["stats"]["hopeless_rule_hits"] = 1
        if any(F["tasks"][k]["deadline"] < F["now"] + min(
                rt for rt, _d in F["tasks"][k]["strategies"]) for k in offered):
            res["stats"]["instances_with_hopeless_task"] = 1
        if any(v == "cancel" for v in plan.values()):
            res["stats"]["instances_with_cancellation"] = 1
        n_placed = sum(1 for v in plan.values() if v not in (None, "cancel"))
        res["stats"]["returned_placed"] = n_placed
        res["stats"]["returned_unplaced"] = sum(1 for v in plan.values() if v is None)
        if not enumerate_model or kind not in SOLVER_KINDS or cap is None \
                or cap.model is None or not cap.ttv:
            if kind in SOLVER_KINDS:
                res["stats"]["no_model_built"] = 1
            return res
        # ---- enumerate the captured model
        H = horizon_for(inst)
        worker_to_pool = {}
        for key, w in b.worker_by_key.items():
            worker_to_pool[w.id] = b.pool_of[key].id
        tvs = e4.task_vars(cap)
        opts = {}
        if kind == "ILP":
            for n, tv in tvs:
                opts[n] = e4.options_ilp(cap, tv, H)
        elif kind == "TSG":
            import gurobipy as gp

            for n, tv in tvs:
                opts[n] = e4.options_matrix(cap, tv, gp.Var)
        elif kind == "TSC":
            from docplex.mp.dvar import Var

            for n, tv in tvs:
                opts[n] = e4.options_matrix(cap, tv, Var)
        elif kind == "Z3":
            for n, tv in tvs:
                opts[n] = e4.options_z3(cap, tv, H, inst["now"])
        seen_plans = set()
        nontrivial = [0]

        def judge(decoded):
            p2, probs = I.describe_placements(b, decoded)
            sig = tuple(sorted((k, v) for k, v in p2.items()))
            seen_plans.add(sig)
            res["validated"] += 1
            for rule, msg in probs:
                viol("C10", "point." + rule, msg)
            if kind in ("ILP", "TSG", "Z3"):
                for rule, msg in oracle_precedence(F, p2, kind):
                    viol("C11", rule, msg + f" [plan {short(p2)}]")
            for rule, msg in oracle_deadline(F, p2):
                viol("C12", rule, msg + f" [plan {short(p2)}]")
            for rule, msg in oracle_capacity(F, p2):
                viol("C10", rule, msg + f" [plan {short(p2)}]")
            if any(v not in (None, "cancel") for k, v in p2.items()
                   if F["tasks"][k]["parents"]):
                nontrivial[0] += 1

        if kind in ("ILP", "TSG"):
            def on_point(assignment):
                decoded = []
                for _n, tv in tvs:
                    decoded.extend(tv.get_placements(cap.workers, worker_to_pool))
                judge(decoded)

            st = e4.enumerate_gurobi(cap, opts, on_point, max_points)
        elif kind == "TSC":
            def on_point(assignment, sol):
                decoded = []
                for _n, tv in tvs:
                    decoded.extend(tv.get_placements(sol, cap.workers, worker_to_pool))
                judge(decoded)

            st = e4.enumerate_docplex(cap, opts, on_point, max_points)
        else:
            from workload import Placement

            def on_point(assignment, model):
                decoded = []
                for _n, tv in tvs:
                    if model[tv.is_placed]:
                        w = cap.workers[model[tv.placed_on_worker].as_long()]
                        decoded.append(Placement.create_task_placement(
                            task=tv.task,
                            placement_time=b.ET(model[tv.start_time].as_long()),
                            worker_pool_id=worker_to_pool[w.id], worker_id=w.id))
                    else:
                        decoded.append(Placement.create_task_placement(tv.task))
                judge(decoded)

            st = e4.enumerate_z3(cap, opts, on_point, max_points)
        res["points"] = st["points"]
        res["feasible"] = st["feasible"]
        res["solves"] = st["solves"]
        res["stats"]["decision_points"] = st["points"]
        res["stats"]["feasible_points"] = st["feasible"]
        res["stats"]["infeasible_points"] = st["points"] - st["feasible"]
        res["stats"]["feasible_points_placing_a_child"] = nontrivial[0]
        res["stats"]["point_cap_hit"] = st["capped"]
        # binding: the returned plan is one of the enumerated feasible points
        decided = {k: v for k, v in plan.items() if v != "cancel"}
        sig = tuple(sorted(decided.items()))
        if not st["capped"]:
            in_h = all(v is None or v[2] <= inst["now"] + H + 1 for v in decided.values())
            if sig in seen_plans:
                res["stats"]["returned_plan_located"] = 1
            elif st["feasible"] == 0 and all(v is None for v in decided.values()):
                # the model has no feasible point at all; the policy's fallback is to
                # leave every offered task unplaced
                res["stats"]["infeasible_models"] = 1
                res["stats"]["returned_plan_located"] = 1
            elif in_h and decided:
                res["unbound"] = (f"the plan returned by schedule() {short(decided)} is "
                                  f"not among the {st['feasible']} enumerated feasible "
                                  f"points")
        return res
    finally:
        e4.release(cap)


def short(plan):
    return {k[1]: v for k, v in plan.items()}
