"""Verification framework for erdos-scheduling-simulator (model checking family).

See /verif/DESIGN.md.  Every module here runs the *real* code of /repo; nothing in
/repo is modified at import time except the two logging factory functions of
`utils` (see bootstrap.py).
"""
