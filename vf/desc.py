"""The *described* world: what the workload / cluster files say, as plain data.

Oracles read this (and the observed calls), never the data structures under test.
"""


class StrategyDesc(object):
    __slots__ = ("runtime", "batch_size", "demand", "index")

    def __init__(self, d, index):
        self.runtime = int(d.get("runtime", 0))
        self.batch_size = int(d.get("batch_size", 1))
        self.demand = {}
        for k, q in (d.get("resource_requirements") or {}).items():
            name, rid = k.split(":")
            self.demand[(name, rid)] = self.demand.get((name, rid), 0) + int(q)
        self.index = index

    def by_name(self):
        out = {}
        for (n, _i), q in self.demand.items():
            out[n] = out.get(n, 0) + q
        return out

    def key(self):
        return (self.runtime, self.batch_size, tuple(sorted(self.demand.items())))


class ProfileDesc(object):
    def __init__(self, d):
        self.name = d["name"]
        self.strategies = [
            StrategyDesc(s, i) for i, s in enumerate(d.get("execution_strategies", []))
        ]
        self.loading = [
            StrategyDesc(s, i) for i, s in enumerate(d.get("loading_strategies", []))
        ]

    def slowest(self):
        return max(s.runtime for s in self.strategies) if self.strategies else 0

    def fastest(self):
        return min(s.runtime for s in self.strategies) if self.strategies else 0


class NodeDesc(object):
    __slots__ = ("name", "profile", "children", "parents", "conditional", "terminal",
                 "probability", "slo")

    def __init__(self, d):
        self.name = d["name"]
        self.profile = d.get("work_profile")
        self.children = list(d.get("children", []))
        self.parents = []
        self.conditional = bool(d.get("conditional", False))
        self.terminal = bool(d.get("terminal", False))
        self.probability = float(d.get("probability", 1.0))
        self.slo = d.get("slo")


class GraphDesc(object):
    def __init__(self, d):
        self.name = d["name"]
        self.raw = d
        self.nodes = {}
        self.order = []
        for nd in d["graph"]:
            n = NodeDesc(nd)
            self.nodes[n.name] = n
            self.order.append(n.name)
        for n in self.nodes.values():
            for c in n.children:
                self.nodes[c].parents.append(n.name)
        self.release_policy = d.get("release_policy")
        self.period = d.get("period")
        self.invocations = d.get("invocations")
        self.start = d.get("start", 0)
        self.concurrency = d.get("concurrency")
        self.deadline_variance = tuple(d.get("deadline_variance", (0, 0)))

    def sources(self):
        return [n for n in self.order if not self.nodes[n].parents]

    def sinks(self):
        return [n for n in self.order if not self.nodes[n].children]

    def descendants(self, name, stop_at_terminal=False):
        out, stack, seen = [], [name], set()
        while stack:
            x = stack.pop()
            if x in seen:
                continue
            seen.add(x)
            out.append(x)
            for c in self.nodes[x].children:
                if stop_at_terminal and self.nodes[c].terminal:
                    continue
                stack.append(c)
        return out

    def topo(self):
        indeg = {n: len(self.nodes[n].parents) for n in self.order}
        ready = [n for n in self.order if indeg[n] == 0]
        out = []
        while ready:
            x = ready.pop(0)
            out.append(x)
            for c in self.nodes[x].children:
                indeg[c] -= 1
                if indeg[c] == 0:
                    ready.append(c)
        return out


class WorkerDesc(object):
    def __init__(self, d, pool):
        self.name = d["name"]
        self.pool = pool
        self.resources = []  # (name, id-or-None, quantity)
        for r in d["resources"]:
            parts = r["name"].split(":")
            self.resources.append((parts[0], parts[1] if len(parts) > 1 else None,
                                   int(r["quantity"])))

    def capacity_by_name(self):
        out = {}
        for n, _i, q in self.resources:
            out[n] = out.get(n, 0) + q
        return out

    def capacity_by_id(self):
        out = {}
        for n, i, q in self.resources:
            if i is not None:
                out[(n, i)] = out.get((n, i), 0) + q
        return out

    def fits(self, demand, used_by_name=None, used_by_id=None):
        """Independent fit check of a demand {(name,id):q} on this worker given what is
        already used (dicts by name and by (name,id))."""
        used_by_name = used_by_name or {}
        used_by_id = used_by_id or {}
        cap_n = self.capacity_by_name()
        cap_i = self.capacity_by_id()
        need_n = {}
        for (n, i), q in demand.items():
            need_n[n] = need_n.get(n, 0) + q
            if i not in (None, "any"):
                if used_by_id.get((n, i), 0) + q > cap_i.get((n, i), 0):
                    return False
        for n, q in need_n.items():
            if used_by_name.get(n, 0) + q > cap_n.get(n, 0):
                return False
        return True


class PoolDesc(object):
    def __init__(self, d):
        self.name = d["name"]
        self.workers = [WorkerDesc(w, self.name) for w in d["workers"]]


class Desc(object):
    def __init__(self, world):
        wl = world["workload"]
        self.profiles = {p["name"]: ProfileDesc(p) for p in wl.get("profiles", [])}
        self.graphs = {}
        self.graph_order = []
        for g in wl.get("graphs", []):
            gd = GraphDesc(g)
            self.graphs[gd.name] = gd
            self.graph_order.append(gd.name)
        self.pools = [PoolDesc(p) for p in world["cluster"]]
        self.flags = dict(world.get("flags", {}))
        self.workers = {}
        for p in self.pools:
            for w in p.workers:
                self.workers[w.name] = w

    def graph_of(self, task_graph_name):
        """'G@3' -> GraphDesc of G (replication suffixes are not used by the slices)."""
        base = task_graph_name.rsplit("@", 1)[0]
        return self.graphs.get(base)

    def node_of(self, task):
        g = self.graph_of(task.task_graph)
        return g.nodes.get(task.name) if g else None

    def strategies_of(self, task):
        nd = self.node_of(task)
        if nd is None or nd.profile is None:
            return []
        return self.profiles[nd.profile].strategies

    def has_zero_runtime(self):
        return any(s.runtime == 0 for p in self.profiles.values() for s in p.strategies)

    def every_task_fits_somewhere(self):
        for g in self.graphs.values():
            for n in g.nodes.values():
                if n.profile is None:
                    return False
                ok = False
                for s in self.profiles[n.profile].strategies:
                    for w in self.workers.values():
                        if w.fits(s.demand):
                            ok = True
                if not ok:
                    return False
        return True
