"""C10 inside simulations: the decision contract on every schedule() call of a run.

Extension of the run monitor.  Before the call every live getter and every task's
state/times are snapshotted; after it they must be unchanged and the returned
Placements must satisfy the contract, judged against the shadow state."""
import itertools

from . import harness as H
from .monitor import us, demand_of, S, RUN, DONE, CAN, R, V

from workload import Placement, Resource

PT = Placement.PlacementType
ANSWER_ALL = ("EDF", "FIFO", "LSF", "ILP", "TetriSched_Gurobi", "TetriSched_CPLEX")


class SchedMonitor(H.NullMonitor):
    def __init__(self, mon, world):
        self.mon = mon
        self.world = world
        self.violations = []
        self.stats = {}
        self.snap = None

    def viol(self, rule, msg, **kw):
        if len(self.violations) < 20:
            d = {"prop": "C10", "rule": rule, "msg": msg, "t": self.mon.clock,
                 "event_index": self.mon.events}
            d.update(kw)
            self.violations.append(d)

    def stat(self, k, n=1):
        self.stats[k] = self.stats.get(k, 0) + n

    def _snapshot(self, sim):
        out = []
        for ws in self.mon.workers.values():
            w = ws.live
            per = []
            for n in sorted(ws.cap_n):
                r = Resource(name=n, _id="any")
                per.append((n, w.resources.get_available_quantity(r)))
            out.append((ws.name, tuple(per),
                        tuple(sorted(t.unique_name for t in w.get_placed_tasks())),
                        tuple(sorted(p.name for p in w.get_available_profiles())),
                        tuple(sorted(p.name for p in w.get_pending_profiles()))))
        for tg in sim._workload.task_graphs.values():
            for t in tg.get_nodes():
                out.append((t.unique_name, t.state.name, us(t.release_time),
                            us(t.deadline), us(t.start_time), us(t.completion_time),
                            us(t._remaining_time) if t._remaining_time is not None
                            else None,
                            us(t._scheduler_placement.placement_time)
                            if t._scheduler_placement is not None and
                            t._scheduler_placement.placement_time is not None else None,
                            t.worker_pool_id, round(t.probability, 6)))
        return tuple(out)

    def on_sched_pre(self, sim, ev):
        self.snap = self._snapshot(sim)

    def on_sched_post(self, sim, ev, placements, exc):
        mon = self.mon
        now = mon.clock
        if exc is not None:
            # the run itself is reported as a crash by C05; for C10 the policy failed
            # to return normally on a reachable input
            self.viol("schedule.raises", f"{mon.policy} raised {type(exc).__name__}: "
                                         f"{str(exc)[:120]} at t={now}")
            return
        self.stat("schedule_calls_judged")
        placed_before = self.stats.get("placements_judged", 0)
        after = self._snapshot(sim)
        if after != self.snap:
            diff = [(a, b) for a, b in zip(self.snap, after) if a != b][:2]
            self.viol("side_effect", f"{mon.policy}.schedule() at t={now} changed the "
                                     f"live state: {diff}")
        offered = set()
        for t in (mon.last_offer or []):
            offered.add(mon.tkey(t))
        seen = {}
        intervals = []
        decided_keys = set()
        for p in placements:
            if p.placement_type not in (PT.PLACE_TASK, PT.CANCEL_TASK):
                continue
            t = p.task
            sh = mon.shadow(t)
            key = sh.key
            seen[key] = seen.get(key, 0) + 1
            decided_keys.add(key)
            if sh.state in (RUN, DONE, CAN) and not (mon.preempt and sh.state == RUN):
                self.viol("decision.for_started_task",
                          f"{key} is {sh.state.name} but received a decision at t={now}")
            if key not in offered and sh.state != S:
                self.viol("decision.not_offered",
                          f"{key} ({sh.state.name}) was not offered at t={now}")
            if p.placement_type == PT.CANCEL_TASK or not p.is_placed():
                continue
            self.stat("placements_judged")
            pd = mon.pool_id_to_desc.get(p.worker_pool_id, "missing")
            if pd == "missing":
                self.viol("pool.unknown", f"{key} placed on an unknown pool")
                continue
            wname = None
            if p.worker_id is not None:
                for ws in mon.pool_id_to_workers.get(p.worker_pool_id, []):
                    if ws.live.id == p.worker_id:
                        wname = ws.name
                if wname is None:
                    self.viol("worker.not_in_pool",
                              f"{key}: worker {p.worker_id} is not in the chosen pool")
                    continue
            st = p.execution_strategy
            pt = us(p.placement_time)
            if pt < now:
                self.viol("decision.in_the_past", f"{key} placed at {pt} < now {now}")
            if sh.released and sh.release_t is not None and pt < sh.release_t:
                self.viol("decision.before_release",
                          f"{key} placed at {pt} < release {sh.release_t}")
            if st is not None:
                dem = demand_of(st)
                rt = us(st.runtime)
                ok = False
                for sd in mon.desc.strategies_of(t):
                    if sd.runtime == rt and sd.demand == dem:
                        ok = True
                if not ok:
                    self.viol("strategy.foreign",
                              f"{key}: reported strategy (runtime {rt}, demand {dem}) is "
                              f"not one of the task's")
                where = wname if wname is not None else ("pool", p.worker_pool_id)
                batch = getattr(st, "id", None) if type(st).__name__ == "BatchStrategy" \
                    else None
                intervals.append((where, dem, pt, pt + rt, key, batch))
        for k, n in seen.items():
            if n > 1:
                self.viol("decision.duplicate", f"{k} received {n} decisions at t={now}")
        if mon.policy in ANSWER_ALL:
            for key in offered:
                sh = mon.tasks.get(key)
                if sh is not None and sh.state == S:
                    continue
                if key not in decided_keys:
                    self.viol("decision.missing",
                              f"offered task {key} got no answer at t={now}")
        # joint feasibility with running and previously scheduled tasks
        pending_pool_level = False
        for key, sh in mon.tasks.items():
            if key in decided_keys:
                continue
            if sh.state == RUN and sh.worker is not None and sh.runtime is not None:
                intervals.append((sh.worker, sh.demand, now,
                                  (sh.start_t or now) + sh.runtime, key, sh.batch))
            elif sh.state == S and sh.decided_strategy is not None and \
                    sh.decided_t is not None:
                st = sh.decided_strategy
                wname = None
                for ws in mon.pool_id_to_workers.get(sh.decided_pool, []):
                    if sh.decided_worker is not None and \
                            ws.live.id == sh.decided_worker:
                        wname = ws.name
                where = wname if wname is not None else ("pool", sh.decided_pool)
                if wname is None and sh.decided_t <= now:
                    pending_pool_level = True
                batch = getattr(st, "id", None) if type(st).__name__ == "BatchStrategy" \
                    else None
                # a previously scheduled task occupies its *planned* interval; one
                # whose planned instant has passed (deferred by the simulator) has no
                # planned instant ahead
                intervals.append((where, demand_of(st), sh.decided_t,
                                  sh.decided_t + us(st.runtime), key, batch))
        # loaded profiles hold their resources throughout
        for ws in mon.workers.values():
            for pid, dem in ws.profiles.items():
                intervals.append((ws.name, dem, now, 2 ** 62, ("profile", pid), None))
        new_placements = self.stats.get("placements_judged", 0) - placed_before
        if new_placements == 0:
            self.stat("calls_without_placement")
            return
        if not self._feasible(intervals, now):
            self.viol("capacity.jointly_infeasible",
                      f"{mon.policy} at t={now}: the placements together with running / "
                      f"scheduled tasks fit no assignment of workers: "
                      f"{[(i[0] if isinstance(i[0], str) else 'pool', i[4][1], i[2], i[3]) for i in intervals]}",
                      overdue_pool_level_placement_pending=pending_pool_level)
        else:
            self.stat("jointly_feasible_decisions")

    def _violates(self, intervals, now=0):
        mon = self.mon
        by_w = {}
        for w, dem, s, e, key, batch in intervals:
            by_w.setdefault(w, []).append((dem, s, e, key, batch))
        for w, lst in by_w.items():
            ws = mon.workers_by_name[w]
            for t in sorted(set(max(x[1], now) for x in lst)):
                used = {}
                batches = set()
                for dem, s, e, key, batch in lst:
                    if s <= t < e:
                        if batch is not None:
                            if batch in batches:
                                continue
                            batches.add(batch)
                        for (n, _i), q in dem.items():
                            used[n] = used.get(n, 0) + q
                for n, q in used.items():
                    if q > ws.cap_n.get(n, 0):
                        return True
        return False

    def _feasible(self, intervals, now=0):
        fixed = [iv for iv in intervals if isinstance(iv[0], str)]
        free = [iv for iv in intervals if not isinstance(iv[0], str)]
        if not free:
            return not self._violates(fixed, now)
        choices = [[ws.name for ws in self.mon.pool_id_to_workers.get(iv[0][1], [])]
                   for iv in free]
        if any(not c for c in choices):
            return False
        for combo in itertools.product(*choices):
            trial = fixed + [(w,) + iv[1:] for w, iv in zip(combo, free)]
            if not self._violates(trial, now):
                return True
        return False


del R, V
