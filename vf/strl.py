"""E5: STRL back-end (C++) -- build of the driver, model enumeration, reference
semantics.  See DESIGN.md section 4 (E5) and 5 (C20)."""
import hashlib
import itertools
import json
import os
import subprocess
import tempfile

ROOT = os.path.dirname(os.path.dirname(os.path.abspath(__file__)))
REPO = os.environ.get("VERIF_REPO", "/repo")
SRC = os.path.join(REPO, "schedulers", "tetrisched")
CORE = ("Types", "Partition", "SolverModel", "CapacityConstraint", "Expression",
        "OptimizationPasses")


# ------------------------------------------------------------------------- build
def source_hash():
    h = hashlib.sha256()
    files = [os.path.join(SRC, "src", f + ".cpp") for f in CORE]
    inc = os.path.join(SRC, "include", "tetrisched")
    files += sorted(os.path.join(inc, f) for f in os.listdir(inc))
    cxx = os.path.join(ROOT, "cxx")
    for d, _dirs, fs in os.walk(cxx):
        for f in sorted(fs):
            files.append(os.path.join(d, f))
    for f in files:
        h.update(f.encode())
        with open(f, "rb") as fh:
            h.update(fh.read())
    return h.hexdigest()[:16]


def build_driver(verbose=False):
    """Compile the driver from /repo's current sources (cached by content hash under
    /verif/build/).  Returns the path of the executable."""
    key = source_hash()
    bdir = os.path.join(ROOT, "build", "strl-" + key)
    exe = os.path.join(bdir, "strl_driver")
    if os.path.exists(exe):
        return exe
    tmp = tempfile.mkdtemp(prefix="strl-build-", dir=os.path.join(ROOT, "build")
                           if os.path.isdir(os.path.join(ROOT, "build")) else None)
    os.makedirs(os.path.join(ROOT, "build"), exist_ok=True)
    flags = ["-std=c++20", "-O1", "-w", "-I", os.path.join(ROOT, "cxx"), "-I",
             os.path.join(SRC, "include")]
    procs = []
    objs = []
    for f in CORE:
        o = os.path.join(tmp, f + ".o")
        objs.append(o)
        procs.append((f, subprocess.Popen(
            ["g++"] + flags + ["-c", os.path.join(SRC, "src", f + ".cpp"), "-o", o],
            stdout=subprocess.PIPE, stderr=subprocess.STDOUT, text=True)))
    o = os.path.join(tmp, "driver.o")
    procs.append(("driver", subprocess.Popen(
        ["g++"] + flags + ["-c", os.path.join(ROOT, "cxx", "strl_driver.cpp"), "-o", o],
        stdout=subprocess.PIPE, stderr=subprocess.STDOUT, text=True)))
    objs.append(o)
    for name, p in procs:
        out, _ = p.communicate()
        if p.returncode != 0:
            raise RuntimeError(f"compilation of {name} failed:\n{out[-3000:]}")
    r = subprocess.run(["g++"] + objs + ["-o", os.path.join(tmp, "strl_driver"),
                                         "-lpthread"],
                       capture_output=True, text=True)
    if r.returncode != 0:
        raise RuntimeError("link failed:\n" + r.stderr[-3000:])
    os.makedirs(bdir, exist_ok=True)
    os.replace(os.path.join(tmp, "strl_driver"), exe)
    for f in os.listdir(tmp):
        os.unlink(os.path.join(tmp, f))
    os.rmdir(tmp)
    # drop stale caches
    for d in os.listdir(os.path.join(ROOT, "build")):
        if d.startswith("strl-") and d != "strl-" + key and \
                not d.startswith("strl-build-"):
            p = os.path.join(ROOT, "build", d)
            for f in os.listdir(p):
                os.unlink(os.path.join(p, f))
            os.rmdir(p)
    return exe


class DriverHang(Exception):
    pass


class Driver(object):
    RPC_TIMEOUT_S = 8.0

    def __init__(self, exe):
        # binary, unbuffered pipes: select() on the descriptor must see everything that
        # has not been consumed yet (a buffered reader would hide lines from it)
        # the back-end appends timing records to ./libtetrisched_performance.csv: run it
        # inside its (git-ignored) build directory and start from an empty file
        wd = os.path.dirname(os.path.abspath(exe))
        try:
            os.remove(os.path.join(wd, "libtetrisched_performance.csv"))
        except OSError:
            pass
        self.p = subprocess.Popen([exe], stdin=subprocess.PIPE, stdout=subprocess.PIPE,
                                  bufsize=0, cwd=wd)
        self._buf = b""

    def _readline(self):
        import os
        import select
        import time

        deadline = time.time() + self.RPC_TIMEOUT_S
        fd = self.p.stdout.fileno()
        while b"\n" not in self._buf:
            left = deadline - time.time()
            r = select.select([fd], [], [], max(left, 0))[0] if left > 0 else []
            if not r:
                self.p.kill()
                raise DriverHang(f"no answer from the STRL back-end within "
                                 f"{self.RPC_TIMEOUT_S:.0f}s")
            chunk = os.read(fd, 1 << 16)
            if not chunk:
                raise RuntimeError("STRL driver died")
            self._buf += chunk
        line, self._buf = self._buf.split(b"\n", 1)
        return line.decode("utf-8", "replace")

    def _rpc(self, text):
        self.p.stdin.write(text.encode())
        self.p.stdin.flush()
        # the back-end answers in milliseconds; a silent driver is a non-terminating
        # compilation (reported by the caller), never something to wait out.  The
        # back-end also prints diagnostics of its own on stdout in some branches (e.g.
        # "[CapConstraint] Registering usage ..." in the range-based discretisation);
        # protocol answers are single JSON objects.
        while True:
            line = self._readline()
            if line.startswith("{"):
                return json.loads(line)

    def load(self, tree):
        return self._rpc("reset\n" + tree_to_text(tree) + "end\n")

    def populate(self, assignment):
        return self._rpc("sol " + " ".join(f"{k}={v}" for k, v in assignment.items())
                         + "\n")

    def close(self):
        try:
            self.p.stdin.write(b"quit\n")
            self.p.stdin.flush()
            self.p.wait(timeout=2)
        except Exception:  # noqa: B902
            self.p.kill()


# ------------------------------------------------------------------------- trees
def tree_to_text(tree):
    out = [f"now {tree['now']}", f"granularity {tree['granularity']}"]
    for pid, q in tree["partitions"].items():
        out.append(f"partition {pid} p{pid} {q}")
    ps = tree.get("passes", (0, 0, 0))
    out.append(f"passes {ps[0]} {ps[1]} {ps[2]}")
    for idx, n in enumerate(tree["nodes"]):
        k = n["kind"]
        if k == "choose":
            a = [",".join(map(str, n["parts"])), n["n"], n["start"], n["dur"], n["u"]]
        elif k == "windowed":
            a = [",".join(map(str, n["parts"])), n["n"], n["start"], n["dur"], n["end"],
                 n["gran"], n["u"]]
        elif k == "malleable":
            a = [",".join(map(str, n["parts"])), n["slots"], n["start"], n["end"],
                 n["gran"], n["u"]]
        elif k == "allocation":
            a = [",".join(f"{p}:{q}" for p, q in n["alloc"].items()), n["start"],
                 n["dur"]]
        elif k == "scale":
            a = [n["factor"]]
        else:
            a = []
        out.append(f"node {idx} {k} {n['name']} " + " ".join(str(x) for x in a))
    for idx, n in enumerate(tree["nodes"]):
        for c in n.get("children", []):
            out.append(f"child {idx} {c}")
    out.append(f"root {tree['root']}")
    return "\n".join(out) + "\n"


# ------------------------------------------------------------------------- enumerator
def is_time_var(name):
    return name.endswith("_start_time") or name.endswith("_end_time")


class Model(object):
    def __init__(self, dump, horizon):
        self.vars = {}
        for v in dump["variables"]:
            lb = 0 if v["lb"] is None else int(v["lb"])
            if v["type"] == 2:
                ub = 1 if v["ub"] is None else int(v["ub"])
            else:
                ub = horizon if v["ub"] is None else min(int(v["ub"]), horizon)
            lb = max(lb, -horizon)
            self.vars[v["id"]] = (v["name"], v["type"], lb, ub)
        self.rows = []
        self.inactive = 0
        for c in dump["constraints"]:
            if not c["active"]:
                self.inactive += 1
                continue
            terms = {}
            const = 0.0
            for coef, vid in c["terms"]:
                if vid is None:
                    const += coef
                else:
                    terms[vid] = terms.get(vid, 0.0) + coef
            self.rows.append((terms, c["sense"], c["rhs"] - const, c["name"]))
        self.obj = []
        self.obj_const = 0.0
        if dump["objective"]:
            for coef, vid in dump["objective"]["terms"]:
                if vid is None:
                    self.obj_const += coef
                else:
                    self.obj.append((coef, vid))
        self.decision = sorted(v for v, (n, t, lb, ub) in self.vars.items()
                               if not (t != 2 and is_time_var(n)))
        self.timev = sorted(v for v in self.vars if v not in set(self.decision))
        self.rows_of = {v: [] for v in self.vars}
        for ri, (terms, _s, _r, _n) in enumerate(self.rows):
            for v in terms:
                self.rows_of[v].append(ri)
        self.evals = 0

    def row_possible(self, ri, val):
        """Can row ri still be satisfied given the partial assignment `val`?"""
        terms, sense, rhs, _n = self.rows[ri]
        lo = hi = 0.0
        for v, c in terms.items():
            if v in val:
                lo += c * val[v]
                hi += c * val[v]
            else:
                _nm, _t, lb, ub = self.vars[v]
                if c >= 0:
                    lo += c * lb
                    hi += c * ub
                else:
                    lo += c * ub
                    hi += c * lb
        self.evals += 1
        if sense == 0:  # <=
            return lo <= rhs + 1e-6
        if sense == 2:  # >=
            return hi >= rhs - 1e-6
        return lo <= rhs + 1e-6 and hi >= rhs - 1e-6

    def objective(self, val):
        return self.obj_const + sum(c * val[v] for c, v in self.obj)

    def solutions(self, max_solutions=None):
        """Every assignment of the decision variables that admits a witness for the
        time variables; yields complete assignments (decision + one witness)."""
        count = [0]
        if not self.constant_rows_ok():
            return  # a row without variables is violated: the model is infeasible

        def witness(i, val):
            if i == len(self.timev):
                return True
            v = self.timev[i]
            _n, _t, lb, ub = self.vars[v]
            for x in range(lb, ub + 1):
                val[v] = x
                if all(self.row_possible(r, val) for r in self.rows_of[v]) and \
                        witness(i + 1, val):
                    return True
            del val[v]
            return False

        def rec(i, val):
            if max_solutions is not None and count[0] >= max_solutions:
                return
            if i == len(self.decision):
                w = dict(val)
                if witness(0, w):
                    count[0] += 1
                    yield w
                return
            v = self.decision[i]
            _n, _t, lb, ub = self.vars[v]
            for x in range(lb, ub + 1):
                val[v] = x
                if all(self.row_possible(r, val) for r in self.rows_of[v]):
                    yield from rec(i + 1, val)
            del val[v]

        yield from rec(0, {})

    def name_assignment(self, val):
        return {self.vars[v][0]: x for v, x in val.items()}

    def rank_assignment(self, val):
        """Values keyed by the rank of the variable in creation (id) order."""
        order = {v: k for k, v in enumerate(sorted(self.vars))}
        return {order[v]: x for v, x in val.items()}

    def constant_rows_ok(self):
        for terms, sense, rhs, _n in self.rows:
            if terms:
                continue
            if (sense == 0 and 0 > rhs + 1e-6) or (sense == 2 and 0 < rhs - 1e-6) or \
                    (sense == 1 and abs(rhs) > 1e-6):
                return False
        return True


# ------------------------------------------------------------------------- semantics
def windowed_slots(n):
    """Start slots of a WindowedChoose as its constructor documents them (start time
    range [start, end] on the granularity grid, finishing inside the end range)."""
    import math

    g = n["gran"]
    lo = g * math.ceil(n["start"] / g)
    hi = g * math.ceil(n["end"] / g)
    end_hi = g * math.ceil((n["end"] + n["dur"]) / g)
    return [t for t in range(lo, hi + 1, g) if t + n["dur"] <= end_hi]


def alloc_vectors(parts, quantities, total):
    ranges = [range(0, min(quantities[p], total) + 1) for p in parts]
    for combo in itertools.product(*ranges):
        if sum(combo) == total:
            yield dict((p, q) for p, q in zip(parts, combo) if q)


def leaf_options(tree, n):
    """All ways to satisfy a leaf: list of (start, end, usage) with usage a list of
    (partition, t0, t1, quantity); [] if it can never be satisfied."""
    now = tree["now"]
    q = tree["partitions"]
    k = n["kind"]
    out = []
    parts = [p for p in n.get("parts", []) if p in q]
    if k == "choose":
        if n["start"] < now or not parts:
            return []
        for a in alloc_vectors(parts, q, n["n"]):
            out.append((n["start"], n["start"] + n["dur"],
                        [(p, n["start"], n["start"] + n["dur"], x)
                         for p, x in a.items()]))
    elif k == "windowed":
        if now > n["end"] or not parts:
            return []
        for t in windowed_slots(n):
            for a in alloc_vectors(parts, q, n["n"]):
                out.append((t, t + n["dur"],
                            [(p, t, t + n["dur"], x) for p, x in a.items()]))
    elif k == "malleable":
        if n["start"] < now or not parts:
            return []
        slots = list(range(n["start"], n["end"], n["gran"]))
        cells = [(p, t) for p in parts for t in slots]
        ranges = [range(0, min(q[p], n["slots"]) + 1) for p, _t in cells]
        for combo in itertools.product(*ranges):
            if sum(combo) != n["slots"]:
                continue
            used = [(p, t, t + n["gran"], x) for (p, t), x in zip(cells, combo) if x]
            ts = [u[1] for u in used]
            out.append((min(ts), max(ts) + n["gran"], used))
    return out


def fixed_usage(tree):
    out = []
    for n in tree["nodes"]:
        if n["kind"] == "allocation":
            for p, x in n["alloc"].items():
                out.append((int(p), n["start"], n["start"] + n["dur"], x))
    return out


def capacity_ok(tree, usage):
    q = tree["partitions"]
    pts = sorted(set(u[1] for u in usage))
    for t in pts:
        used = {}
        for p, t0, t1, x in usage:
            if t0 <= t < t1:
                used[p] = used.get(p, 0) + x
        for p, x in used.items():
            if x > q.get(p, 0):
                return False
    return True


def evaluate(tree, choice):
    """Semantics of the tree for one choice {leaf index: option or None}.
    Returns (valid, utility)."""
    nodes = tree["nodes"]
    memo = {}

    def ev(i):
        """(satisfied, utility, start, end) or None if structurally invalid."""
        if i in memo:
            return memo[i]
        n = nodes[i]
        k = n["kind"]
        r = None
        if k in ("choose", "windowed", "malleable"):
            o = choice.get(i)
            r = (False, 0.0, None, None) if o is None else (True, n["u"], o[0], o[1])
        elif k == "allocation":
            r = (True, 0.0, n["start"], n["start"] + n["dur"])
        else:
            cs = [ev(c) for c in n["children"]]
            if any(c is None for c in cs):
                r = None
            elif k == "objective":
                r = (True, sum(c[1] for c in cs), None, None)
            elif k == "scale":
                c = cs[0]
                r = (c[0], c[1] * n["factor"], c[2], c[3])
            elif k == "max":
                sat = [c for c in cs if c[0]]
                if len(sat) > 1:
                    r = None
                elif sat:
                    r = sat[0]
                else:
                    r = (False, 0.0, None, None)
            elif k == "min":
                if all(c[0] for c in cs):
                    r = (True, sum(c[1] for c in cs),
                         min(c[2] for c in cs), max(c[3] for c in cs))
                elif not any(c[0] and nodes[ci]["kind"] != "allocation"
                             for c, ci in zip(cs, n["children"])):
                    r = (False, 0.0, None, None)
                else:
                    r = None
            elif k == "lessthan":
                a, b = cs
                if a[0] and b[0]:
                    r = (True, a[1] + b[1], a[2], b[3]) if a[3] <= b[2] else None
                elif not (a[0] and nodes[n["children"][0]]["kind"] != "allocation") and \
                        not (b[0] and nodes[n["children"][1]]["kind"] != "allocation"):
                    r = (False, 0.0, None, None)
                else:
                    r = None
        memo[i] = r
        return r

    r = ev(tree["root"])
    if r is None:
        return False, 0.0
    usage = fixed_usage(tree)
    for i, o in choice.items():
        if o is not None:
            usage += o[2]
    if not capacity_ok(tree, usage):
        return False, 0.0
    return True, r[1]


def reference_optimum(tree):
    leaves = [i for i, n in enumerate(tree["nodes"])
              if n["kind"] in ("choose", "windowed", "malleable")]
    opts = [[None] + leaf_options(tree, tree["nodes"][i]) for i in leaves]
    best = 0.0
    n = 0
    for combo in itertools.product(*opts):
        n += 1
        ok, u = evaluate(tree, dict(zip(leaves, combo)))
        if ok and u > best:
            best = u
    return best, n
