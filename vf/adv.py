"""Adversarial scheduler: the scheduling policy as part of the *environment*.

The simulator-side properties (C01, C02, C03, C05, C06) are quantified over every
scheduler.  The stock policies only ever produce a thin set of decisions (greedy ones
place "now" where it fits; planners return one optimum).  `TapeScheduler` is a
BaseScheduler whose every decision is an answer read from the tape, so the explorer
enumerates *all* decision sequences a legal scheduler could produce over a small menu
(deviation-bounded like every other tape kind):

  per offered task, in unique-name order:
     0            place it now on the first pool that could ever hold it (default)
     1..          (pool, strategy, delay) for every pool that could ever hold the
                  strategy and every delay in the world's menu
     then         leave it unplaced (a skip; un-schedules a SCHEDULED task)
     then         cancel it (only if the world enables cancellations)

What is deliberately *not* in the menu, because the simulator does not promise to cope
with it: placements in the past, placements on pools that can never hold the strategy
(the simulator retries those forever), two placements for one task in one invocation.
Placing a task on a pool that is currently full, or before its parents finished, is
legal (planners do both) and the simulator must defer the start.

The scheduler is offered tasks through the real Workload.get_schedulable_tasks with
the world's retract / release_taskgraphs / lookahead settings.
"""
from copy import deepcopy

TAPE = None     # set by the harness for the duration of one run
CONFIG = None   # the world's "adv" dict


def make_class():
    from schedulers import BaseScheduler
    from utils import EventTime
    from workload import BranchPredictionPolicy, Placement, Placements

    class TapeScheduler(BaseScheduler):
        def __init__(self, preemptive=False, runtime=EventTime.zero(),
                     enforce_deadlines=False, _flags=None):
            cfg = CONFIG or {}
            super(TapeScheduler, self).__init__(
                preemptive=False,
                runtime=runtime,
                lookahead=EventTime(int(cfg.get("lookahead", 0)), EventTime.Unit.US),
                enforce_deadlines=enforce_deadlines,
                policy=BranchPredictionPolicy.ALL,
                retract_schedules=bool(cfg.get("retract", False)),
                release_taskgraphs=bool(cfg.get("rtg", False)),
                _flags=_flags,
            )
            self._cfg = cfg

        def schedule(self, sim_time, workload, worker_pools):
            cfg = self._cfg
            tasks = workload.get_schedulable_tasks(
                time=sim_time,
                lookahead=self.lookahead,
                preemption=False,
                retract_schedules=self.retract_schedules,
                worker_pools=worker_pools,
                policy=self.policy,
                branch_prediction_accuracy=self.branch_prediction_accuracy,
                release_taskgraphs=self.release_taskgraphs,
            )
            empty = deepcopy(worker_pools)  # cleared copies: what could ever fit
            delays = list(cfg.get("delays", (0, 1, 3)))
            placements = []
            for task in sorted(tasks, key=lambda t: t.unique_name):
                opts = []
                for si, strategy in enumerate(task.available_execution_strategies):
                    for pool in empty.worker_pools:
                        if pool.can_accomodate_strategy(strategy):
                            for d in delays:
                                opts.append(("place", pool.id, strategy, d))
                opts.append(("skip",))
                if cfg.get("cancel"):
                    opts.append(("cancel",))
                a = TAPE.answer("sched", len(opts)) if TAPE is not None else 0
                o = opts[a]
                if o[0] == "place":
                    placements.append(Placement.create_task_placement(
                        task=task,
                        placement_time=sim_time + EventTime(o[3], EventTime.Unit.US),
                        worker_pool_id=o[1],
                        execution_strategy=o[2],
                    ))
                elif o[0] == "skip":
                    placements.append(Placement.create_task_placement(task=task))
                else:
                    placements.append(Placement.create_task_cancellation(task=task))
            rt = self.runtime if not self.runtime.is_invalid() else EventTime.zero()
            return Placements(runtime=rt, true_runtime=EventTime.zero(),
                              placements=placements)

    return TapeScheduler
