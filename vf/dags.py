"""Exhaustive generators of labelled DAGs / cyclic digraphs (unique generation)."""
import itertools


def _subsets(items):
    for r in range(len(items) + 1):
        for c in itertools.combinations(items, r):
            yield c


def labelled_dags(nodes, first_masks=None, second_masks=None):
    """Every DAG on the given labelled nodes exactly once (Robinson's recursion:
    choose the non-empty set S of sources, a DAG on the rest, and for every node of the
    rest a set of parents in S that is non-empty for the rest's own sources).
    `first_masks` restricts the outermost choice of S and `second_masks` the choice
    one level below (for work partitioning)."""
    nodes = tuple(nodes)
    n = len(nodes)
    if n == 0:
        yield ()
        return
    masks = range(1, 1 << n) if first_masks is None else first_masks
    for mask in masks:
        S = tuple(nodes[i] for i in range(n) if mask >> i & 1)
        R = tuple(nodes[i] for i in range(n) if not mask >> i & 1)
        if not R:
            yield ()
            continue
        s_subsets = list(_subsets(S))
        s_nonempty = s_subsets[1:]
        for sub in labelled_dags(R, first_masks=second_masks):
            has_parent = set(v for (_u, v) in sub)
            options = []
            for v in R:
                opts = s_subsets if v in has_parent else s_nonempty
                options.append([tuple((u, v) for u in ps) for ps in opts])
            for combo in itertools.product(*options):
                e = list(sub)
                for c in combo:
                    e.extend(c)
                yield tuple(e)


def count_dags(n):
    return sum(1 for _ in labelled_dags(range(n)))


def cyclic_digraphs(n):
    """Every digraph on n labelled nodes (no self loops) that contains a cycle."""
    pairs = [(i, j) for i in range(n) for j in range(n) if i != j]
    for mask in range(1 << len(pairs)):
        edges = tuple(p for k, p in enumerate(pairs) if mask >> k & 1)
        if has_cycle(n, edges):
            yield edges


def has_cycle(n, edges):
    adj = {i: [] for i in range(n)}
    indeg = {i: 0 for i in range(n)}
    for u, v in edges:
        adj[u].append(v)
        indeg[v] += 1
    q = [i for i in range(n) if indeg[i] == 0]
    seen = 0
    while q:
        x = q.pop()
        seen += 1
        for y in adj[x]:
            indeg[y] -= 1
            if indeg[y] == 0:
                q.append(y)
    return seen != n


# ---- brute-force reference definitions
def reach(n, edges):
    adj = {i: set() for i in range(n)}
    for u, v in edges:
        adj[u].add(v)
    R = {}
    for s in range(n):
        seen, st = set(), [s]
        while st:
            x = st.pop()
            for y in adj[x]:
                if y not in seen:
                    seen.add(y)
                    st.append(y)
        R[s] = seen
    return R


def all_paths(n, edges):
    """All source-to-sink paths (lists of nodes)."""
    ch = {i: [] for i in range(n)}
    par = {i: [] for i in range(n)}
    for u, v in edges:
        ch[u].append(v)
        par[v].append(u)
    out = []

    def rec(path):
        x = path[-1]
        if not ch[x]:
            out.append(list(path))
            return
        for y in ch[x]:
            path.append(y)
            rec(path)
            path.pop()

    for s in range(n):
        if not par[s]:
            rec([s])
    return out
